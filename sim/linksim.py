"""E2: a fault-injecting channel inside the real ChannelCodeModel link (DESIGN §4).

Real: ChannelCodeModel/SequentialModel, encoder, decoder, modulator, demodulator,
IdentityConstraint, PerfectChannel, BinarySymmetricChannel, AWGNChannel.
Harness: TapModulator / TapDemodulator (delegating recorders), FaultChannel (the injector).
"""

from __future__ import annotations

import contextlib
import io
import math
import random
from typing import Any, Dict, List, Optional

import torch

from kaira.channels import AWGNChannel, BaseChannel, BinaryErasureChannel, BinarySymmetricChannel, PerfectChannel
from kaira.constraints import IdentityConstraint
from kaira.models.channel_code import ChannelCodeModel
from kaira.modulations import BaseDemodulator, BaseModulator

from . import catalogue as C
from .core import HarnessError


MSG_DTYPES = {"float32": torch.float32, "float64": torch.float64, "int64": torch.int64, "int32": torch.int32, "uint8": torch.uint8, "int8": torch.int8, "float16": torch.float16, "bfloat16": torch.bfloat16}


class TapModulator(BaseModulator):
    def __init__(self, inner):
        super().__init__()
        self.inner = inner
        self.bits_in = None
        self.sym_out = None

    @property
    def bits_per_symbol(self):
        return self.inner.bits_per_symbol

    def forward(self, x, *args, **kwargs):
        self.bits_in = x.detach().clone()
        y = self.inner(x, *args, **kwargs)
        self.sym_out = y.detach().clone()
        return y


class TapDemodulator(BaseDemodulator):
    def __init__(self, inner):
        super().__init__()
        self.inner = inner
        self.sym_in = None
        self.out = None
        self.share_equal_rows = False
        self.shared_rows = False

    @property
    def bits_per_symbol(self):
        return self.inner.bits_per_symbol

    def forward(self, y, noise_var=None, *args, **kwargs):
        self.sym_in = y.detach().clone()
        out = self.inner(y, noise_var, *args, **kwargs) if noise_var is not None else self.inner(y, *args, **kwargs)
        self.out = out.detach().clone() if isinstance(out, torch.Tensor) else out
        if self.share_equal_rows and isinstance(out, torch.Tensor) and out.dim() == 2 and out.shape[0] >= 2 and bool((out == out[0:1]).all()):
            # a receiver that got the same word on every row may hand it on as one row broadcast over the batch
            # (a stride-0 view): the same values in another memory layout
            self.shared_rows = True
            return out[0:1].clone().expand(out.shape[0], -1)
        return out


def constellation_dmin(mod) -> Optional[float]:
    c = getattr(mod, "constellation", None)
    if c is None:
        return None
    c = c.detach().reshape(-1).to(torch.complex128)
    if c.numel() < 2:
        return None
    d = (c.unsqueeze(0) - c.unsqueeze(1)).abs()
    d = d + torch.eye(c.numel(), dtype=d.dtype) * 1e9
    return float(d.min())


class FaultChannel(BaseChannel):
    """The injector.  It sees the symbols the transmitter really sent (and asserts they are what
    the tap recorded), and returns damaged symbols according to the plan."""

    def __init__(self, plan: dict, tap: TapModulator, clean_mod_factory, n: int):
        super().__init__()
        self.plan, self.tap, self.factory, self.n = plan, tap, clean_mod_factory, n
        self.fired = {}
        self.bits_after = None
        self.armed = True

    def forward(self, x, *args, **kwargs):
        if not self.armed:
            return x
        if self.tap.sym_out is None or x.shape != self.tap.sym_out.shape or not torch.equal(x, self.tap.sym_out):
            raise HarnessError("channel input differs from what the modulator emitted (a stage between them is not the identity)")
        kind = self.plan["kind"]
        if kind in ("flips", "arbitrary"):
            bits = self.tap.bits_in.clone()
            rows = bits.reshape(-1, bits.shape[-1])
            nflip = 0
            if kind == "flips":
                for r, row_pat in enumerate(self.plan["patterns"]):
                    for blk, positions in enumerate(row_pat):
                        for p in positions:
                            rows[r, blk * self.n + p] = 1 - rows[r, blk * self.n + p]
                            nflip += 1
            else:
                for r, word in enumerate(self.plan["words"]):
                    new = torch.tensor(word, dtype=rows.dtype)
                    nflip += int((rows[r] != new).sum())
                    rows[r] = new
            self.fired["bit_flips"] = nflip
            self.bits_after = rows.reshape(bits.shape)
            with torch.no_grad():
                return self.factory()(self.bits_after)
        if kind == "displace":
            rnd = random.Random(self.plan["angle_seed"])
            dmin = self.plan["dmin"]
            mag = self.plan["rho"] * dmin / 2.0
            flat = x.reshape(-1)
            if torch.is_complex(x):
                ang = torch.tensor([rnd.uniform(0, 2 * math.pi) for _ in range(flat.numel())], dtype=torch.float64)
                disp = torch.polar(torch.full_like(ang, mag), ang).to(x.dtype)
            else:
                disp = torch.tensor([mag if rnd.random() < 0.5 else -mag for _ in range(flat.numel())], dtype=x.dtype)
            self.fired["symbols_displaced"] = flat.numel()
            return (flat + disp).reshape(x.shape)
        raise HarnessError(f"unknown plan {kind}")


class LinkResult:
    def __init__(self):
        self.out = None
        self.exc: Optional[BaseException] = None
        self.exc_stage = ""
        self.tap_mod: Optional[TapModulator] = None
        self.tap_demod: Optional[TapDemodulator] = None
        self.fired: Dict[str, int] = {}
        self.in_budget = True
        self.max_flips_per_block = 0
        self.bits_sent = None
        self.bits_received = None
        self.fired_history = 0
        self.over_rows = []
        self.cohabit_built = False


def case_messages(case: dict) -> torch.Tensor:
    """The messages of the judged call.  Very wide batches are carried as (seed, rows, bits) instead of a list."""
    g = case.get("messages_gen")
    if g:
        gen = torch.Generator().manual_seed(int(g["seed"]))
        return torch.randint(0, 2, (int(g["rows"]), int(g["bits"])), generator=gen).to(torch.float32)
    return torch.tensor(case["messages"], dtype=torch.float32)


def run_link(case: dict) -> LinkResult:
    """Assemble the real ChannelCodeModel for the case and push the messages through it."""
    res = LinkResult()
    if case.get("prelude"):
        # hermetic history: an earlier, similar encoder/decoder pair is built (and used once) in this process
        # first, then the pair under test is built fresh, so that the case alone reproduces any leak between them
        pre = case["prelude"]
        try:
            pdec = C.build_decoder(pre, case["decoder"], case.get("dec_opts"), fresh=True)
            penc = pdec.encoder
            with torch.no_grad(), contextlib.redirect_stdout(io.StringIO()):
                pdec(torch.ones(1, penc.code_length) if case.get("soft") else penc(torch.zeros(1, penc.code_dimension)))
        except Exception:
            pass  # nothing is asked of the prelude itself
        dec = C.build_decoder(case["code"], case["decoder"], case.get("dec_opts"), fresh=True)
        enc = dec.encoder
        res.fired_history = 1
    else:
        # hermetic: private deep copies of the (never called) per-process prototypes
        dec = C.private_decoder(case["code"], case["decoder"], case.get("dec_opts"))
        enc = dec.encoder if hasattr(dec, "encoder") else C.private_encoder(case["code"])
    if case.get("cohabit"):
        # another decoder is built on the very same encoder object (two receivers sharing one code description) and used once;
        # constructing or using it must not change the encoder, nor the decoder under test
        import kaira.models.fec.decoders as D

        try:
            with torch.no_grad(), contextlib.redirect_stdout(io.StringIO()):
                other = {"bp": lambda: D.BeliefPropagationDecoder(enc, bp_iters=3), "minsum": lambda: D.MinSumLDPCDecoder(enc, bp_iters=3),
                         "ml": lambda: D.BruteForceMLDecoder(enc), "syndrome": lambda: D.SyndromeLookupDecoder(enc)}[case["cohabit"]]()
                other(torch.ones(1, enc.code_length) if case["cohabit"] in ("bp", "minsum") else torch.zeros(1, enc.code_length))
            res.fired_history += 1
            res.cohabit_built = True
        except Exception:
            res.cohabit_built = False  # that decoder does not exist for this code: nothing is asked
    mod, demod = C.build_modem(case["mod"], case.get("via_registry", False))
    mod.eval()
    demod.eval()
    tmod, tdem = TapModulator(mod), TapDemodulator(demod)
    tdem.share_equal_rows = bool(case.get("shared_rows"))
    res.tap_mod, res.tap_demod = tmod, tdem
    plan = case["plan"]
    n = enc.code_length
    kind = plan["kind"]
    if kind == "ideal":
        # an ideal channel is the pass-through channel, or one of the library's channels configured to do nothing
        impl = plan.get("impl", "perfect")
        channel = {"perfect": PerfectChannel, "bsc0": lambda: BinarySymmetricChannel(0.0), "bec0": lambda: BinaryErasureChannel(0.0), "awgn0": lambda: AWGNChannel(avg_noise_power=0.0)}[impl]()
    elif kind in ("flips", "arbitrary", "displace"):
        channel = FaultChannel(plan, tmod, lambda: C.build_modem(case["mod"], case.get("via_registry", False))[0].eval(), n)
    elif kind == "bsc":
        channel = BinarySymmetricChannel(plan["p"])
    elif kind == "awgn":
        channel = AWGNChannel(avg_noise_power=plan["noise_power"])
    else:
        raise HarnessError(kind)
    model = ChannelCodeModel(encoder=enc, constraint=IdentityConstraint(), modulator=tmod, channel=channel, demodulator=tdem, decoder=dec)
    msg = case_messages(case).to(MSG_DTYPES[case.get("msg_dtype", "float32")])
    if case.get("one_d"):
        msg = msg.reshape(-1)
    if case.get("warmup_messages"):
        # earlier uses of the same chain object (eval mode); the injector is disarmed, outputs are not judged here
        if isinstance(channel, FaultChannel):
            channel.armed = False
        torch.manual_seed(case.get("plan", {}).get("torch_seed", 0) ^ 0x5555)
        for wm in case["warmup_messages"]:
            try:
                with torch.no_grad(), contextlib.redirect_stdout(io.StringIO()):
                    w = torch.tensor(wm, dtype=MSG_DTYPES[case.get("msg_dtype", "float32")])
                    if case.get("one_d") and w.shape[0] == 1:
                        w = w.reshape(-1)
                    wout = model(w, noise_var=case["noise_var"]) if case.get("soft") else model(w)
                    if isinstance(wout, torch.Tensor) and wout.numel() and wout.data_ptr() != w.data_ptr():
                        wout.mul_(0).add_(3)  # the caller owns what was returned and may overwrite it in place
            except Exception:
                pass
        if isinstance(channel, FaultChannel):
            channel.armed = True
        tmod.bits_in = tmod.sym_out = None
        tdem.sym_in = tdem.out = None
    if "torch_seed" in plan:
        torch.manual_seed(plan["torch_seed"])
    try:
        with torch.no_grad(), contextlib.redirect_stdout(io.StringIO()):
            if case.get("soft"):
                nv = case["noise_var"]
                form = case.get("nv_form", "float")
                res.out = model(msg, noise_var=int(nv) if form == "int" else (torch.tensor(int(nv)) if form == "int_tensor" else (torch.tensor(nv) if form == "tensor" else nv)))
            else:
                res.out = model(msg)
    except HarnessError:
        raise
    except Exception as e:  # classified by the caller
        res.exc = e
        res.exc_stage = "decoder" if tdem.out is not None else ("demodulator" if tdem.sym_in is not None else ("channel" if tmod.sym_out is not None else ("modulator" if tmod.bits_in is not None else "encoder")))
    if isinstance(channel, FaultChannel):
        res.fired = dict(channel.fired)
        if channel.bits_after is not None and tmod.bits_in is not None:
            res.bits_sent, res.bits_received = tmod.bits_in, channel.bits_after
    # post-hoc classification of the damage a real random channel did
    if kind == "bsc" and tmod.sym_out is not None and tdem.sym_in is not None:
        sent = tmod.sym_out.reshape(-1, n)
        got = tdem.sym_in.reshape(-1, n)
        per_block = (sent != got).sum(dim=1)
        res.max_flips_per_block = int(per_block.max()) if per_block.numel() else 0
        res.fired = {"bit_flips": int(per_block.sum())}
        # budget is judged row by row: a row with a block of more than t flips is relaxed, the others are not
        nrows = tmod.sym_out.reshape(-1, tmod.sym_out.shape[-1]).shape[0]
        per_row = per_block.reshape(nrows, -1).max(dim=1).values
        res.over_rows = [int(i) for i in (per_row > plan["t"]).nonzero().reshape(-1)]
        res.in_budget = len(res.over_rows) < nrows
        res.bits_sent, res.bits_received = tmod.sym_out, tdem.sym_in
    if kind == "awgn" and tmod.sym_out is not None and tdem.sym_in is not None:
        disp = (tdem.sym_in.reshape(-1).to(torch.complex128) - tmod.sym_out.reshape(-1).to(torch.complex128)).abs()
        res.fired = {"symbols_displaced": int(disp.numel())}
        res.in_budget = bool(float(disp.max()) < plan.get("soft_budget", 0.98) * plan["dmin"] / 2.0)
    return res
