"""E1: a simulated thread pool (DESIGN §3.2).

`SimExecutor`, `sim_as_completed` and `sim_wait` are drop-ins for the three names
`ThreadPoolExecutor`, `as_completed`, `wait`.  No OS threads exist: a task body runs atomically
in the caller's thread at the moment the scheduler *starts* it, and its outcome becomes visible
to the caller at the moment the scheduler *finishes* it.  Every scheduler decision is taken
from a `Decider` — a list of integers carried by the case — so a schedule is data: it can be
recorded, replayed and minimised.

Legal behaviours reproduced (the nondeterministic specification of the real pool):
  * tasks start in FIFO order, at most `max_workers` in flight;
  * in-flight tasks may finish in any order;
  * workers make progress while the caller is still submitting, and while the caller blocks;
  * `as_completed(fs)` first yields the futures already finished at the call in an arbitrary
    order (CPython iterates a set there), then the others in completion order;
  * time is virtual: while the simulated names are installed, `time.time/monotonic/perf_counter` (and `_ns`) read the
    simulation's clock and `time.sleep` advances it; a task body advances it by the duration the case gives that stage
    (`advance`).  A run therefore cannot depend on real time, and "branch b took 50 ms" is data of the case;
  * a task body may itself use a pool (a model nested in a branch).  While that body waits, the
    scheduler may start and run to completion any other startable task of any pool of the
    universe — including a second forward of the very object the waiting body is inside — so two
    calls on one object overlap: "call 1 has gathered some results, call 2 runs, call 1 resumes".
    A task whose body is still on the stack cannot be finished (`running`).
"""

from __future__ import annotations

import concurrent.futures as cf
import contextlib
import os
from typing import Any, Callable, List, Optional


class SimDeadlock(Exception):
    """The caller waits for a future nobody can complete (harness-level error)."""


class Decider:
    """Source of scheduler choices: the explicit list in the case, 0 when exhausted."""

    def __init__(self, decisions: List[int]):
        self.decisions = list(decisions)
        self.pos = 0
        self.used: List[tuple] = []

    def choose(self, n: int, what: str = "") -> int:
        if n <= 1:
            return 0
        d = self.decisions[self.pos] if self.pos < len(self.decisions) else 0
        self.pos += 1
        c = d % n
        self.used.append((what, n, c))
        return c


class SimFuture(cf.Future):
    def __init__(self, sim: "Sim", tid: int):
        super().__init__()
        self._sim = sim
        self._tid = tid

    def result(self, timeout=None):
        if not self._sim.block_until(lambda: self.done(), f"result({self._tid})", timeout):
            raise cf.TimeoutError()
        return super().result(timeout=0)

    def exception(self, timeout=None):
        if not self._sim.block_until(lambda: self.done(), f"exception({self._tid})", timeout):
            raise cf.TimeoutError()
        return super().exception(timeout=0)


class Sim:
    """One simulated pool universe (one per model forward)."""

    def __init__(self, decider: Decider, log, eager_bias: int = 2):
        self.decider = decider
        self.log = log
        self.executors: List["SimExecutor"] = []
        self.submits = 0
        self.finish_order: List[int] = []
        self.yield_orders: List[List[int]] = []
        self.prefinished: List[int] = []
        self.max_inflight = 0
        self.eager_bias = eager_bias
        self.timeouts_fired = 0
        self.now = 0.0  # virtual seconds: advanced only by task bodies that declare a duration and by time.sleep
        self.clock_reads = 0
        self.depth = 0  # task bodies currently on the stack
        self.nested_starts = 0  # tasks of an outer pool started while a task body (with its own pool) was waiting

    # -- stepping ---------------------------------------------------------------------------
    def _options(self):
        opts = []
        for ex in self.executors:
            if ex.queue and len(ex.inflight) < ex.workers:
                opts.append(("start", ex, None))
            for t in ex.inflight:
                if not t.running:
                    opts.append(("finish", ex, t))
        return opts

    def step(self, allow_idle: bool, where: str) -> bool:
        """Take one scheduler step (or idle when allowed).  Returns False if nothing happened."""
        opts = self._options()
        if not opts:
            return False
        n = len(opts) + (1 if allow_idle else 0)
        c = self.decider.choose(n, where)
        if c >= len(opts):
            return False
        kind, ex, task = opts[c]
        if kind == "start":
            task = ex.queue.pop(0)
            ex.inflight.append(task)
            self.max_inflight = max(self.max_inflight, len(ex.inflight))
            self.log.add("sched.start", {"task": task.tid})
            live = [e for e in self.executors if not e._shutdown]
            if self.depth and live and ex is not live[-1]:
                self.nested_starts += 1  # a waiting body's pool is not the innermost one: two bodies overlap in time
            self.depth += 1
            try:
                task.run_body()
            finally:
                self.depth -= 1
        else:
            ex.inflight.remove(task)
            self.finish_order.append(task.tid)
            self.log.add("sched.finish", {"task": task.tid, "raised": task.exc is not None})
            task.publish()
        return True

    def block_until(self, cond: Callable[[], bool], where: str, timeout=None) -> bool:
        """Advance the pool until `cond` holds.  With a timeout the scheduler may also let the timeout fire
        first (a slow branch): returns False in that case.  Virtual time: a timeout is just another event."""
        while not cond():
            if timeout is not None and self._options() and self.decider.choose(4, where + ".timeout?") == 3:
                self.timeouts_fired += 1
                self.log.add("sched.timeout", {"where": where})
                return False
            if not self.step(False, where):
                if timeout is not None:
                    self.timeouts_fired += 1
                    return False
                raise SimDeadlock(f"caller blocked in {where} but no task can make progress")
        return True

    def background(self, where: str, max_steps: int = 64) -> None:
        """Workers race ahead while the caller is busy: zero or more steps, chosen by the decider."""
        for _ in range(max_steps):
            if not self.step(True, where):
                return


class _Task:
    __slots__ = ("tid", "fn", "args", "kwargs", "future", "value", "exc", "ran", "running")

    def __init__(self, tid, fn, args, kwargs, future):
        self.tid, self.fn, self.args, self.kwargs, self.future = tid, fn, args, kwargs, future
        self.value, self.exc, self.ran, self.running = None, None, False, False

    def run_body(self):
        self.ran = True
        if not self.future.set_running_or_notify_cancel():
            return
        self.running = True
        try:
            self.value = self.fn(*self.args, **self.kwargs)
        except BaseException as e:  # stored in the future, as the real pool does
            self.exc = e
        finally:
            self.running = False

    def publish(self):
        if self.future.cancelled():
            return
        if self.exc is not None:
            self.future.set_exception(self.exc)
        else:
            self.future.set_result(self.value)


_CURRENT: Optional[Sim] = None


def advance(seconds: float) -> None:
    """A task body declares that it took `seconds` of (virtual) time."""
    if _CURRENT is not None and seconds > 0:
        _CURRENT.now += float(seconds)


class SimExecutor:
    def __init__(self, max_workers=None, thread_name_prefix="", initializer=None, initargs=()):
        if _CURRENT is None:
            raise RuntimeError("SimExecutor used outside a simulation")
        if max_workers is None:
            max_workers = min(32, (os.cpu_count() or 1) + 4)
        if max_workers <= 0:
            raise ValueError("max_workers must be greater than 0")
        self.sim = _CURRENT
        self.workers = max_workers
        self.queue: List[_Task] = []
        self.inflight: List[_Task] = []
        self._shutdown = False
        self.sim.executors.append(self)

    def submit(self, fn, /, *args, **kwargs):
        if self._shutdown:
            raise RuntimeError("cannot schedule new futures after shutdown")
        sim = self.sim
        tid = sim.submits
        sim.submits += 1
        fut = SimFuture(sim, tid)
        self.queue.append(_Task(tid, fn, args, kwargs, fut))
        sim.log.add("sched.submit", {"task": tid})
        sim.background(f"submit({tid})")
        return fut

    def map(self, fn, *iterables, timeout=None, chunksize=1):
        futs = [self.submit(fn, *a) for a in zip(*iterables)]

        def gen():
            for f in futs:
                yield f.result()

        return gen()

    def shutdown(self, wait=True, *, cancel_futures=False):
        self._shutdown = True
        if cancel_futures:
            for t in self.queue:
                t.future.cancel()
            self.queue.clear()
        if wait:
            self.sim.block_until(lambda: not self.queue and not self.inflight, "shutdown")

    def __enter__(self):
        return self

    def __exit__(self, *exc):
        self.shutdown(wait=True)
        return False


def sim_as_completed(fs, timeout=None):
    sim = _CURRENT
    if sim is None:
        raise RuntimeError("sim_as_completed used outside a simulation")
    fs = list(dict.fromkeys(fs))  # the real one builds a set; duplicates collapse
    done0 = [f for f in fs if f.done()]
    rest = [f for f in fs if not f.done()]
    sim.prefinished.append(len(done0))
    order: List[int] = []
    sim.yield_orders.append(order)

    def gen():
        pool = list(done0)
        while pool:  # arbitrary order over the already-finished set
            f = pool.pop(sim.decider.choose(len(pool), "as_completed.prefinished"))
            order.append(getattr(f, "_tid", -1))
            sim.log.add("sched.yield", {"task": getattr(f, "_tid", -1), "pre": True})
            yield f
            sim.background("as_completed.between")
        pending = list(rest)
        while pending:
            if not sim.block_until(lambda: any(f.done() for f in pending), "as_completed.wait", timeout):
                raise cf.TimeoutError(f"{len(pending)} (of {len(fs)}) futures unfinished")
            # completion order among those that finished meanwhile
            ready = [f for f in pending if f.done()]
            ready.sort(key=lambda f: sim.finish_order.index(f._tid) if getattr(f, "_tid", None) in sim.finish_order else 1 << 30)
            f = ready[0]
            pending.remove(f)
            order.append(getattr(f, "_tid", -1))
            sim.log.add("sched.yield", {"task": getattr(f, "_tid", -1), "pre": False})
            yield f
            sim.background("as_completed.between")

    return gen()


def sim_wait(fs, timeout=None, return_when=cf.ALL_COMPLETED):
    sim = _CURRENT
    fs = list(dict.fromkeys(fs))
    from concurrent.futures._base import DoneAndNotDoneFutures

    if return_when == cf.FIRST_COMPLETED:
        sim.block_until(lambda: any(f.done() for f in fs), "wait.first", timeout)
    elif return_when == cf.FIRST_EXCEPTION:
        sim.block_until(lambda: all(f.done() for f in fs) or any(f.done() and not f.cancelled() and cf.Future.exception(f, 0) is not None for f in fs), "wait.exc", timeout)
    else:
        sim.block_until(lambda: all(f.done() for f in fs), "wait.all", timeout)
    done = {f for f in fs if f.done()}
    return DoneAndNotDoneFutures(done, set(fs) - done)


@contextlib.contextmanager
def installed(sim: Sim, modules: List[Any]):
    """Install the simulated names into `concurrent.futures` and into every module in `modules`
    that imported them by name; restore on exit."""
    global _CURRENT
    import concurrent.futures.thread as cft

    saved = []
    targets = [cf, cft] + list(modules)
    for m in targets:
        for name, repl in (("ThreadPoolExecutor", SimExecutor), ("as_completed", sim_as_completed), ("wait", sim_wait)):
            if hasattr(m, name) or m in (cf,):
                try:
                    saved.append((m, name, m.__dict__.get(name, None), name in m.__dict__))
                    setattr(m, name, repl)
                except Exception:
                    pass
    # the clock: every reading of time inside the simulation is the virtual clock (nothing in a run may depend on real time)
    import time as _time

    t_saved = {n: getattr(_time, n) for n in ("time", "monotonic", "perf_counter", "time_ns", "monotonic_ns", "perf_counter_ns", "sleep")}
    base = 1.7e9

    def _read(offset=0.0):
        sim.clock_reads += 1
        return offset + sim.now

    _time.time = lambda: _read(base)
    _time.monotonic = lambda: _read(1000.0)
    _time.perf_counter = lambda: _read(1000.0)
    _time.time_ns = lambda: int(_read(base) * 1e9)
    _time.monotonic_ns = lambda: int(_read(1000.0) * 1e9)
    _time.perf_counter_ns = lambda: int(_read(1000.0) * 1e9)
    _time.sleep = lambda sec: advance(sec)
    prev = _CURRENT
    _CURRENT = sim
    try:
        yield sim
    finally:
        _CURRENT = prev
        for n, f in t_saved.items():
            setattr(_time, n, f)
        for m, name, old, had in reversed(saved):
            if had:
                setattr(m, name, old)
            else:
                try:
                    delattr(m, name)
                except Exception:
                    pass
