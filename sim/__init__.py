"""Deterministic-simulation machinery for ipc-lab/kaira (see /verif/DESIGN.md)."""
