"""Catalogue of real kaira components used by the link / history engines (DESIGN §4.2).

Everything is built from explicit, JSON-able *specs* so a case can name its components exactly.
Constructed objects are cached per process (never on disk — DESIGN §10 rule 7).
A spec the library's own constructor rejects raises `Inadmissible`.
"""

from __future__ import annotations

import contextlib
import io
import itertools
import random
from typing import Any, Dict, List, Optional, Tuple

import torch

from . import core


class Inadmissible(Exception):
    pass


def private(obj):
    """A deep copy of a cached per-process prototype: prototypes themselves are never called, so no state a
    component may keep can travel from one simulated run to the next (runs stay pure functions of their case)."""
    import copy

    return copy.deepcopy(obj) if isinstance(obj, torch.nn.Module) else obj


def private_decoder(spec: dict, kind: str, opts: Optional[dict] = None):
    """A decoder (with its encoder) that no other run has touched: a deep copy of the prototype, or a fresh
    build where the object cannot be deep-copied (BCH objects hold a GF(2^m) field whose class defines __new__(m))."""
    proto = build_decoder(spec, kind, opts)
    try:
        return private(proto)
    except Exception:
        return build_decoder(spec, kind, opts, fresh=True)


def private_encoder(spec: dict):
    proto = build_encoder(spec)
    try:
        return private(proto)
    except Exception:
        return build_encoder(spec, fresh=True)


# --------------------------------------------------------------------------- code specs


def _rand_fullrank(rng: random.Random, k: int, n: int) -> List[List[int]]:
    """A random full-rank k x n binary matrix (rejection sampling with a GF(2) rank check)."""
    while True:
        rows = [rng.getrandbits(n) | (1 << rng.randrange(n)) for _ in range(k)]
        # rank over GF(2)
        basis = []
        for r in rows:
            for b in basis:
                r = min(r, r ^ b)
            if r:
                basis.append(r)
        if len(basis) == k:
            return [[(r >> (n - 1 - j)) & 1 for j in range(n)] for r in rows]


def _rand_sparse_H(rng: random.Random, m: int, n: int) -> List[List[int]]:
    """Random sparse parity-check matrix: column weight 2 (or 1), every row non-empty."""
    while True:
        H = [[0] * n for _ in range(m)]
        for j in range(n):
            for i in rng.sample(range(m), 2 if m >= 2 and rng.random() < 0.8 else 1):
                H[i][j] = 1
        if all(any(r) for r in H):
            return H


def gen_code_spec(rng: random.Random, families: Optional[List[str]] = None) -> dict:
    fam = rng.choice(families or ["hamming", "hamming", "repetition", "spc", "reed_muller", "cyclic", "bch", "bch", "golay", "reed_solomon", "linear", "systematic", "ldpc", "polar"])
    if fam == "hamming":
        mu = rng.choice([2, 3, 3, 4, 4, 5])
        ext = rng.random() < 0.4
        n = 2 ** mu - 1 + (1 if ext else 0)
        k = 2 ** mu - 1 - mu
        iset = rng.choice(["left", "left", "right", "custom"])
        if iset == "custom":
            iset = sorted(rng.sample(range(n), k))
            if rng.random() < 0.3:
                rng.shuffle(iset)
        return {"family": fam, "mu": mu, "extended": ext, "information_set": iset}
    if fam == "repetition":
        return {"family": fam, "n": rng.choice([2, 3, 4, 5, 6, 7, 9])}
    if fam == "spc":
        return {"family": fam, "k": rng.randrange(1, 11)}
    if fam == "reed_muller":
        m = rng.choice([2, 3, 3, 4, 4, 5])
        return {"family": fam, "r": rng.randrange(0, m), "m": m}
    if fam == "cyclic":
        name, n, g = rng.choice([("hamming74", 7, 0b1011), ("simplex73", 7, 0b10111), ("bch155", 15, 0b10100110111), ("golay2312", 23, 0b101011100011),
                                 ("hamming1511", 15, 0b10011), ("bch157", 15, 0b111010001), ("rep7", 7, 0b1111111), ("n9k3", 9, 0b1001001)])
        return {"family": fam, "n": n, "g": g, "information_set": rng.choice(["left", "left", "right"])}
    if fam == "bch":
        mu = rng.choice([2, 3, 3, 4, 4, 4, 5, 5, 6])
        # every Bose distance the constructor accepts, including those whose true minimum distance is larger (delta = 2; mu = 3, delta = 5)
        delta = rng.choice({2: [2, 3], 3: [2, 3, 5, 7], 4: [2, 3, 5, 7, 15], 5: [2, 3, 5, 7, 11, 15, 31], 6: [2, 3, 5, 7, 9, 11, 13, 15, 21, 23, 27, 31]}[mu])
        return {"family": fam, "mu": mu, "delta": delta, "information_set": rng.choice(["left", "left", "right"])}
    if fam == "golay":
        return {"family": fam, "extended": rng.random() < 0.5, "information_set": rng.choice(["left", "left", "right"])}
    if fam == "reed_solomon":
        mu = rng.choice([3, 4])
        return {"family": fam, "mu": mu, "delta": rng.choice([3, 5, 7] if mu == 4 else [3, 5]), "information_set": rng.choice(["left", "right"])}
    if fam == "linear":
        n = rng.randrange(3, 13)
        k = rng.randrange(1, min(n, 8))
        return {"family": fam, "G": _rand_fullrank(rng, k, n)}
    if fam == "systematic":
        n = rng.randrange(3, 13)
        k = rng.randrange(1, min(n, 8))
        P = [[rng.randrange(2) for _ in range(n - k)] for _ in range(k)]
        iset = rng.choice(["left", "right", "custom"])
        if iset == "custom":
            iset = sorted(rng.sample(range(n), k))
        return {"family": fam, "P": P, "information_set": iset}
    if fam == "ldpc":
        n = rng.randrange(6, 21)
        m = rng.randrange(2, max(3, n // 2))
        return {"family": fam, "H": _rand_sparse_H(rng, m, n)}
    if fam == "polar":
        N = rng.choice([4, 8, 16, 32, 64])
        return {"family": fam, "N": N, "k": rng.randrange(1, N), "frozen_zeros": rng.random() < 0.5, "polar_i": rng.random() < 0.3}
    raise ValueError(fam)


def sibling_spec(rng: random.Random, spec: dict) -> Optional[dict]:
    """Another code whose encoder has the same class and the same (n, k) but is a different code or layout:
    used to build 'an earlier, similar object' in the same process before the object under test."""
    fam = spec["family"]
    sib = dict(spec)
    if fam in ("hamming", "bch", "golay", "reed_solomon", "cyclic") and isinstance(spec.get("information_set"), str):
        if fam == "cyclic" and rng.random() < 0.5:
            alt = {(7, 0b1011): 0b1101, (7, 0b1101): 0b1011, (15, 0b10011): 0b11001, (15, 0b11001): 0b10011}.get((spec["n"], spec["g"]))
            if alt:
                sib["g"] = alt
                return sib
        sib["information_set"] = "right" if spec["information_set"] == "left" else "left"
        return sib
    if fam == "hamming" and isinstance(spec.get("information_set"), list):
        sib["information_set"] = "left"
        return sib
    if fam == "linear":
        k, n = len(spec["G"]), len(spec["G"][0])
        sib["G"] = _rand_fullrank(rng, k, n)
        return sib if sib["G"] != spec["G"] else None
    if fam == "systematic":
        k, m = len(spec["P"]), len(spec["P"][0])
        sib["P"] = [[rng.randrange(2) for _ in range(m)] for _ in range(k)]
        return sib if sib["P"] != spec["P"] else None
    if fam == "ldpc":
        m, n = len(spec["H"]), len(spec["H"][0])
        sib["H"] = _rand_sparse_H(rng, m, n)
        return sib if sib["H"] != spec["H"] else None
    if fam == "polar":
        sib["frozen_zeros"] = not spec["frozen_zeros"]
        return sib
    return None


_ENC_CACHE: Dict[str, Any] = {}
_DEC_CACHE: Dict[str, Any] = {}
_MISC_CACHE: Dict[str, Any] = {}


def build_encoder(spec: dict, fresh: bool = False):
    key = core.cjson(spec)
    if fresh:
        saved = _ENC_CACHE.pop(key, None)
        try:
            return build_encoder(spec)
        finally:
            if saved is not None and not isinstance(saved, Exception):
                _ENC_CACHE[key] = saved
            else:
                _ENC_CACHE.pop(key, None)
    if key in _ENC_CACHE:
        v = _ENC_CACHE[key]
        if isinstance(v, Exception):
            raise v
        return v
    from kaira.models.fec import encoders as E

    fam = spec["family"]
    try:
        with contextlib.redirect_stdout(io.StringIO()):
            if fam == "hamming":
                enc = E.HammingCodeEncoder(mu=spec["mu"], extended=spec["extended"], information_set=spec["information_set"])
            elif fam == "repetition":
                enc = E.RepetitionCodeEncoder(repetition_factor=spec["n"])
            elif fam == "spc":
                enc = E.SingleParityCheckCodeEncoder(dimension=spec["k"])
            elif fam == "reed_muller":
                enc = E.ReedMullerCodeEncoder(order=spec["r"], length_param=spec["m"])
            elif fam == "cyclic":
                enc = E.CyclicCodeEncoder(code_length=spec["n"], generator_polynomial=spec["g"], information_set=spec["information_set"])
            elif fam == "bch":
                enc = E.BCHCodeEncoder(mu=spec["mu"], delta=spec["delta"], information_set=spec["information_set"])
            elif fam == "golay":
                enc = E.GolayCodeEncoder(extended=spec["extended"], information_set=spec["information_set"])
            elif fam == "reed_solomon":
                enc = E.ReedSolomonCodeEncoder(mu=spec["mu"], delta=spec["delta"], information_set=spec["information_set"])
            elif fam == "linear":
                enc = E.LinearBlockCodeEncoder(generator_matrix=torch.tensor(spec["G"], dtype=torch.float32))
            elif fam == "systematic":
                enc = E.SystematicLinearBlockCodeEncoder(parity_submatrix=torch.tensor(spec["P"], dtype=torch.float32), information_set=spec["information_set"])
            elif fam == "ldpc":
                enc = E.LDPCCodeEncoder(check_matrix=torch.tensor(spec["H"], dtype=torch.float32))
            elif fam == "polar":
                enc = E.PolarCodeEncoder(spec["k"], spec["N"], frozen_zeros=spec["frozen_zeros"], polar_i=spec["polar_i"])
            else:
                raise ValueError(fam)
    except Exception as e:
        err = Inadmissible(f"{fam}: constructor rejected {spec}: {type(e).__name__}: {e}")
        _ENC_CACHE[key] = err
        raise err
    _ENC_CACHE[key] = enc
    return enc


def advertised_distance(spec: dict, enc) -> Tuple[Optional[int], str]:
    """(d, source) as the code object advertises it; (None, reason) when it advertises nothing."""
    fam = spec["family"]
    if fam == "repetition":
        return int(spec["n"]), "class docstring: d = n"
    md = getattr(enc, "minimum_distance", None)
    try:
        if callable(md):
            return int(md()), "minimum_distance()"
        if md is not None:
            return int(md), "minimum_distance"
    except Exception as e:
        return None, f"minimum_distance raised {type(e).__name__}"
    ecc = getattr(enc, "error_correction_capability", None)
    if ecc is not None:
        try:
            t = int(ecc() if callable(ecc) else ecc)
            return 2 * t + 1, "error_correction_capability"
        except Exception:
            pass
    return None, "nothing advertised"


# decoder kinds ---------------------------------------------------------------------------

HARD_DECODERS = {
    "syndrome": ["hamming", "repetition", "spc", "reed_muller", "cyclic", "bch", "golay", "linear", "systematic", "reed_solomon"],
    "ml": ["hamming", "repetition", "spc", "reed_muller", "cyclic", "bch", "golay", "linear", "systematic", "ldpc", "reed_solomon"],
    "bm": ["bch", "reed_solomon"],
    "rm_hard": ["reed_muller"],
    "hamming_inverse": ["hamming"],
    "rm_inverse": ["reed_muller"],
}
SOFT_DECODERS = {
    "bp": ["ldpc", "linear", "hamming", "systematic"],
    "minsum": ["ldpc"],
    "wagner": ["spc"],
    "rm_soft": ["reed_muller"],
    "sc": ["polar"],
    "bp_polar": ["polar"],
}
COMPLETE_DECODERS = ("syndrome", "ml", "rm_inverse")


def decoder_kinds(spec: dict, enc, soft: bool) -> List[str]:
    table = SOFT_DECODERS if soft else HARD_DECODERS
    out = []
    for kind, fams in table.items():
        if spec["family"] not in fams:
            continue
        if kind == "syndrome" and (enc.redundancy > 12 or (enc.code_length > 16 and spec["family"] not in ("hamming", "golay", "reed_muller", "repetition"))):
            continue  # table construction enumerates error patterns by weight; bounded so a weak code cannot stall a worker
        if kind == "ml" and enc.code_dimension > 12:
            continue
        if spec["family"] == "reed_muller" and kind in ("syndrome", "rm_inverse") and enc.code_dimension > (8 if kind == "syndrome" else 16):
            continue  # ReedMullerCodeEncoder.inverse_encode / calculate_syndrome enumerate all 2^k codewords per call
        out.append(kind)
    return out


class InverseEncodeDecoder(torch.nn.Module):
    """Harness wrapper: uses the encoder's own inverse_encode as the decoding stage."""

    def __init__(self, encoder):
        super().__init__()
        self.encoder = encoder

    def forward(self, received, *args, **kwargs):
        out = self.encoder.inverse_encode(received)
        return out[0] if isinstance(out, tuple) else out


def build_decoder(spec: dict, kind: str, opts: Optional[dict] = None, fresh: bool = False):
    opts = opts or {}
    key = core.cjson([spec, kind, opts])
    if not fresh and key in _DEC_CACHE:
        v = _DEC_CACHE[key]
        if isinstance(v, Exception):
            raise v
        return v
    from kaira.models.fec import decoders as D

    enc = build_encoder(spec, fresh=fresh)
    try:
        with contextlib.redirect_stdout(io.StringIO()):
            if kind == "syndrome":
                dec = D.SyndromeLookupDecoder(enc)
            elif kind == "ml":
                dec = D.BruteForceMLDecoder(enc, precompute_codebook=opts.get("precompute", True))
            elif kind == "bm":
                dec = D.BerlekampMasseyDecoder(enc)
            elif kind == "rm_hard":
                dec = D.ReedMullerDecoder(enc, input_type="hard")
            elif kind == "rm_soft":
                dec = D.ReedMullerDecoder(enc, input_type="soft")
            elif kind in ("hamming_inverse", "rm_inverse"):
                dec = InverseEncodeDecoder(enc)
            elif kind == "bp":
                dec = D.BeliefPropagationDecoder(enc, bp_iters=opts.get("iters", 10), arctanh=opts.get("arctanh", True))
            elif kind == "minsum":
                dec = D.MinSumLDPCDecoder(enc, bp_iters=opts.get("iters", 10), scaling_factor=opts.get("scaling", 1.0), offset=opts.get("offset", 0.0))
            elif kind == "wagner":
                dec = D.WagnerSoftDecisionDecoder(enc)
            elif kind == "sc":
                dec = D.SuccessiveCancellationDecoder(enc, regime=opts.get("regime", "sum_product"))
            elif kind == "bp_polar":
                dec = D.BeliefPropagationPolarDecoder(enc, bp_iters=opts.get("iters", 10), regime=opts.get("regime", "sum_product"))
            else:
                raise ValueError(kind)
    except Inadmissible:
        raise
    except Exception as e:
        err = Inadmissible(f"decoder {kind} rejected encoder {spec}: {type(e).__name__}: {e}")
        if not fresh:
            _DEC_CACHE[key] = err
        raise err
    if not fresh:
        _DEC_CACHE[key] = dec
    return dec


DECODER_CLASS = {
    "syndrome": "SyndromeLookupDecoder", "ml": "BruteForceMLDecoder", "bm": "BerlekampMasseyDecoder", "rm_hard": "ReedMullerDecoder[hard]",
    "rm_soft": "ReedMullerDecoder[soft]", "hamming_inverse": "HammingCodeEncoder.inverse_encode", "rm_inverse": "ReedMullerCodeEncoder.inverse_encode",
    "bp": "BeliefPropagationDecoder", "minsum": "MinSumLDPCDecoder", "wagner": "WagnerSoftDecisionDecoder", "sc": "SuccessiveCancellationDecoder",
    "bp_polar": "BeliefPropagationPolarDecoder",
}
ENCODER_CLASS = {
    "hamming": "HammingCodeEncoder", "repetition": "RepetitionCodeEncoder", "spc": "SingleParityCheckCodeEncoder", "reed_muller": "ReedMullerCodeEncoder",
    "cyclic": "CyclicCodeEncoder", "bch": "BCHCodeEncoder", "golay": "GolayCodeEncoder", "reed_solomon": "ReedSolomonCodeEncoder",
    "linear": "LinearBlockCodeEncoder", "systematic": "SystematicLinearBlockCodeEncoder", "ldpc": "LDPCCodeEncoder", "polar": "PolarCodeEncoder",
}


# --------------------------------------------------------------------------- reference model (independent of kaira's algebra)


def codebook(spec: dict) -> Optional[List[int]]:
    """All codewords as integers (bit j of the word = bit (n-1-j) of the int), by encoding every message with the
    real encoder once; k <= 12.  Used only as the *set* of words the encoder produces."""
    key = "cb:" + core.cjson(spec)
    if key in _MISC_CACHE:
        return _MISC_CACHE[key]
    enc = build_encoder(spec)
    k, n = enc.code_dimension, enc.code_length
    if k > 12:
        _MISC_CACHE[key] = None
        return None
    msgs = torch.tensor(list(itertools.product([0, 1], repeat=k)), dtype=torch.float32)
    with contextlib.redirect_stdout(io.StringIO()):
        cw = private_encoder(spec)(msgs)
    weights = (2 ** torch.arange(n - 1, -1, -1, dtype=torch.int64))
    words = ((cw.round().to(torch.int64) % 2) * weights).sum(dim=1).tolist()
    _MISC_CACHE[key] = words
    return words


def bits_to_int(bits) -> int:
    v = 0
    for b in bits:
        v = (v << 1) | (int(b) & 1)
    return v


def min_distance_to_code(spec: dict, word_int: int) -> Optional[int]:
    cb = codebook(spec)
    if cb is None:
        return None
    return min(bin(c ^ word_int).count("1") for c in cb)


def true_min_distance(spec: dict) -> Optional[int]:
    key = "d:" + core.cjson(spec)
    if key in _MISC_CACHE:
        return _MISC_CACHE[key]
    cb = codebook(spec)
    if cb is None:
        return None
    nz = [bin(c).count("1") for c in cb if c]
    d = min(nz) if nz else None
    if len(set(cb)) != len(cb):
        d = 0  # the encoder is not injective
    _MISC_CACHE[key] = d
    return d


# --------------------------------------------------------------------------- modulations


def gen_mod_spec(rng: random.Random, allow: Optional[List[str]] = None) -> dict:
    scheme = rng.choice(allow or ["identity", "bpsk", "qpsk", "psk", "psk", "qam", "qam", "pam", "pam", "pi4qpsk"])
    if scheme == "psk":
        return {"scheme": scheme, "order": rng.choice([4, 8, 16, 32, 64]), "gray": rng.random() < 0.6}
    if scheme == "qam":
        return {"scheme": scheme, "order": rng.choice([4, 16, 64, 256]), "gray": rng.random() < 0.6, "normalize": rng.random() < 0.6}
    if scheme == "pam":
        return {"scheme": scheme, "order": rng.choice([2, 4, 8, 16, 32, 64]), "gray": rng.random() < 0.6, "normalize": rng.random() < 0.6}
    if scheme == "qpsk":
        return {"scheme": scheme, "normalize": rng.random() < 0.6}
    if scheme == "bpsk":
        return {"scheme": scheme, "complex_output": rng.random() < 0.5}
    if scheme == "pi4qpsk":
        return {"scheme": scheme, "gray": rng.random() < 0.5}
    if scheme == "dpsk":
        spec = {"scheme": scheme, "order": rng.choice([2, 4, 8, 16]), "gray": rng.random() < 0.5, "via": rng.choice(["order", "class"]),
                "label_kw": rng.choice(["gray_coding", "gray_coding", "gray_coded"]), "size_kw": rng.choice(["order", "order", "bits_per_symbol"])}
        if spec["via"] == "class" and spec["order"] in (2, 4):
            spec["gray"] = spec["order"] == 4  # DBPSK is binary-labelled, DQPSK Gray-labelled by definition of the classes
        return spec
    if scheme == "oqpsk":
        return {"scheme": scheme, "normalize": rng.random() < 0.6}
    return {"scheme": "identity"}


def build_modem(spec: dict, via_registry: bool = False):
    """Fresh (modulator, demodulator) pair — modems may carry state, so they are never cached."""
    import kaira.modulations as M
    from kaira.modulations.registry import ModulationRegistry as R

    s = spec["scheme"]
    try:
        if s == "identity":
            return M.IdentityModulator(), M.IdentityDemodulator()
        if s == "bpsk":
            if via_registry:
                return R.create("bpskmodulator", "modulator", complex_output=spec["complex_output"]), R.create("bpskdemodulator", "demodulator")
            return M.BPSKModulator(complex_output=spec["complex_output"]), M.BPSKDemodulator()
        if s == "qpsk":
            if via_registry:
                return R.create("qpskmodulator", "modulator", normalize=spec["normalize"]), R.create("qpskdemodulator", "demodulator", normalize=spec["normalize"])
            return M.QPSKModulator(normalize=spec["normalize"]), M.QPSKDemodulator(normalize=spec["normalize"])
        if s == "psk":
            if via_registry:
                return R.create("pskmodulator", "modulator", order=spec["order"], gray_coding=spec["gray"]), R.create("pskdemodulator", "demodulator", order=spec["order"], gray_coding=spec["gray"])
            return M.PSKModulator(order=spec["order"], gray_coding=spec["gray"]), M.PSKDemodulator(order=spec["order"], gray_coding=spec["gray"])
        if s == "qam":
            kw = dict(order=spec["order"], gray_coding=spec["gray"], normalize=spec["normalize"])
            if via_registry:
                return R.create("qammodulator", "modulator", **kw), R.create("qamdemodulator", "demodulator", **kw)
            return M.QAMModulator(**kw), M.QAMDemodulator(**kw)
        if s == "pam":
            kw = dict(order=spec["order"], gray_coding=spec["gray"], normalize=spec["normalize"])
            if via_registry:
                return R.create("pammodulator", "modulator", **kw), R.create("pamdemodulator", "demodulator", **kw)
            return M.PAMModulator(**kw), M.PAMDemodulator(**kw)
        if s == "pi4qpsk":
            import inspect

            # the demodulator takes the modulator's labeling where the tree's API offers that parameter
            dkw = {"gray_coded": spec["gray"]} if "gray_coded" in inspect.signature(M.Pi4QPSKDemodulator.__init__).parameters else {}
            if via_registry:
                return R.create("pi4qpsk", "modulator", gray_coded=spec["gray"]), R.create("pi4qpsk", "demodulator", **dkw)
            return M.Pi4QPSKModulator(gray_coded=spec["gray"]), M.Pi4QPSKDemodulator(**dkw)
        if s == "dpsk":
            if spec.get("via") == "class" and spec["order"] == 2:
                return (R.create("dbpsk", "modulator"), R.create("dbpsk", "demodulator")) if via_registry else (M.DBPSKModulator(), M.DBPSKDemodulator())
            if spec.get("via") == "class" and spec["order"] == 4:
                return (R.create("dqpsk", "modulator"), R.create("dqpsk", "demodulator")) if via_registry else (M.DQPSKModulator(), M.DQPSKDemodulator())
            # every documented spelling of the options: order= | bits_per_symbol=, gray_coding= | gray_coded=
            kw = {spec.get("label_kw", "gray_coding"): spec["gray"]}
            if spec.get("size_kw") == "bits_per_symbol":
                kw["bits_per_symbol"] = spec["order"].bit_length() - 1
            else:
                kw["order"] = spec["order"]
            if via_registry:
                return R.create("dpskmodulator", "modulator", **kw), R.create("dpskdemodulator", "demodulator", **kw)
            return M.DPSKModulator(**kw), M.DPSKDemodulator(**kw)
        if s == "oqpsk":
            if via_registry:
                return R.create("oqpsk", "modulator", normalize=spec["normalize"]), R.create("oqpsk", "demodulator", normalize=spec["normalize"])
            return M.OQPSKModulator(normalize=spec["normalize"]), M.OQPSKDemodulator(normalize=spec["normalize"])
    except Exception as e:
        raise Inadmissible(f"modem {spec}: {type(e).__name__}: {e}")
    raise ValueError(s)


def mod_name(spec: dict) -> str:
    s = spec["scheme"]
    parts = [s]
    for k in ("order", "gray", "normalize", "complex_output"):
        if k in spec:
            parts.append(f"{k}={spec[k]}")
    return ",".join(parts)
