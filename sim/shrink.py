"""Greedy minimisation of a failing case (DESIGN §2.4).

The engine proposes simpler cases (`shrink_candidates(case)`); a candidate is accepted iff it
still produces a violation of the same *class* (`shrink_key(signature)`, by default the
failure kind and the component).  Bounded in executions and wall time.
"""

from __future__ import annotations

import time
from typing import Any, Tuple

from .core import RunResult, Violation


def _key(eng, sig: dict) -> Any:
    if hasattr(eng, "shrink_key"):
        return eng.shrink_key(sig)
    return (sig.get("kind"), sig.get("component"))


def list_ddmin(items: list):
    """Yield shorter versions of a list: drop halves, quarters, ..., then single items."""
    n = len(items)
    if n == 0:
        return
    size = n // 2
    while size >= 1:
        for lo in range(0, n, size):
            cand = items[:lo] + items[lo + size:]
            if len(cand) < n:
                yield cand
        size //= 2


def shrink_case(eng, case: dict, viol: Violation, max_exec: int = 200, max_s: float = 20.0) -> Tuple[dict, RunResult, Violation]:
    want = _key(eng, viol.signature)
    best_case = case
    best_res = eng.execute(case)
    best_v = next((v for v in best_res.violations if _key(eng, v.signature) == want), None)
    if best_v is None:  # should not happen (execute is deterministic); keep the original
        return case, best_res, viol
    if not hasattr(eng, "shrink_candidates"):
        return best_case, best_res, best_v
    t0 = time.time()
    n = 0
    improved = True
    while improved and n < max_exec and time.time() - t0 < max_s:
        improved = False
        for cand in eng.shrink_candidates(best_case):
            if n >= max_exec or time.time() - t0 > max_s:
                break
            n += 1
            try:
                res = eng.execute(cand)
            except Exception:
                continue
            v = next((x for x in res.violations if _key(eng, x.signature) == want), None)
            if v is not None:
                best_case, best_res, best_v = cand, res, v
                improved = True
                break
    return best_case, best_res, best_v
