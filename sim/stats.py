"""Statistical oracles with an explicit false-alarm budget (DESIGN §6).

Every test returns (ok, detail).  ALPHA is the per-test two-sided level; a check run performs
at most ~2e5 tests, so the union over one run stays below 1e-9 (Bonferroni).  With VERIF_SEED
fixed, the outcome is a pure function of the tree; the bound is about what another seed may do.
Variances are taken from the target law, never estimated from the sample.
"""

from __future__ import annotations

import math

from scipy import stats as _st

ALPHA = 5e-15
LOG_ALPHA = math.log(ALPHA)
Z = float(_st.norm.isf(ALPHA / 2))  # ~7.83


def binom_test(k: int, n: int, p: float):
    """Exact two-sided binomial test of k successes in n trials against probability p."""
    if n <= 0:
        return True, "n=0"
    if p <= 0.0:
        return k == 0, f"k={k} of n={n} with p=0"
    if p >= 1.0:
        return k == n, f"k={k} of n={n} with p=1"
    lo = _st.binom.logcdf(k, n, p)  # P(X <= k)
    hi = _st.binom.logsf(k - 1, n, p)  # P(X >= k)
    logp = min(0.0, math.log(2.0) + min(lo, hi))
    return logp >= LOG_ALPHA, f"k={k} n={n} p={p:g} expected={n * p:.1f} log10(pvalue)={logp / math.log(10):.1f}"


def normal_test(value: float, mean: float, sd: float, slack: float = 0.0):
    """|value-mean| <= Z*sd + slack, sd being the analytic standard deviation of the estimator."""
    dev = abs(value - mean)
    return dev <= Z * sd + slack, f"value={value:.6g} expected={mean:.6g} sd={sd:.3g} deviation={dev / sd if sd > 0 else float('inf'):.2f} sigma (limit {Z:.2f})"


def disjoint_pair_counts(e, m, lag: int):
    """Events e (bool 1-D tensor), eligibility m (bool 1-D tensor or None).  Pairs (i, i+lag) with
    floor(i/lag) even are disjoint, hence independent under the i.i.d. hypothesis.
    Returns (both_events, eligible_pairs)."""
    import torch

    n = e.numel()
    if lag <= 0 or n < 2 * lag:
        return 0, 0
    blocks = n // (2 * lag)
    a = e[: blocks * 2 * lag].reshape(blocks, 2, lag)
    both = a[:, 0, :] & a[:, 1, :]
    if m is not None:
        mm = m[: blocks * 2 * lag].reshape(blocks, 2, lag)
        elig = mm[:, 0, :] & mm[:, 1, :]
        return int((both & elig).sum()), int(elig.sum())
    return int(both.sum()), int(both.numel())
