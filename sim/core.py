"""Shared core: seed derivation, canonical event log + digest, violations, replay files,
known-findings matching.  Nothing in here draws random numbers or reads a clock.
"""

from __future__ import annotations

import hashlib
import json
import os
import random
import subprocess
from collections import Counter
from dataclasses import dataclass, field
from typing import Any, Dict, List, Optional

VERIF_DIR = os.path.dirname(os.path.dirname(os.path.abspath(__file__)))
REPO_DIR = os.environ.get("VERIF_REPO", "/repo")

M64 = (1 << 64) - 1


# --------------------------------------------------------------------------- seeds


def splitmix64(x: int) -> int:
    x = (x + 0x9E3779B97F4A7C15) & M64
    z = x
    z = ((z ^ (z >> 30)) * 0xBF58476D1CE4E5B9) & M64
    z = ((z ^ (z >> 27)) * 0x94D049BB133111EB) & M64
    return (z ^ (z >> 31)) & M64


def derive_seed(prop: str, verif_seed: int, index: int, stream: str = "") -> int:
    """run_seed = H(property, VERIF_SEED, run index).  Pure; independent of PYTHONHASHSEED."""
    h = 0x243F6A8885A308D3
    for ch in f"{prop}|{stream}|{int(verif_seed)}|{int(index)}".encode():
        h = splitmix64(h ^ ch)
    return h & ((1 << 63) - 1)


def rng_for(run_seed: int, stream: str = "") -> random.Random:
    if stream:
        run_seed = derive_seed(stream, run_seed, 0)
    return random.Random(run_seed)


def verif_seed_from_env() -> int:
    try:
        return int(os.environ.get("VERIF_SEED", "0"))
    except ValueError:
        return 0


# --------------------------------------------------------------------------- canonical forms


def canon(obj: Any) -> Any:
    """Canonical JSON-able form of a payload.  Tensors become dtype/shape/content-or-hash."""
    try:
        import torch
    except Exception:  # pragma: no cover
        torch = None
    if obj is None or isinstance(obj, (bool, int, str)):
        return obj
    if isinstance(obj, float):
        return repr(obj)
    if isinstance(obj, complex):
        return [repr(obj.real), repr(obj.imag)]
    if torch is not None and isinstance(obj, torch.Tensor):
        t = obj.detach().cpu()
        shape = list(t.shape)
        dt = str(t.dtype).replace("torch.", "")
        if t.numel() <= 64 and not t.is_floating_point() and not t.is_complex():
            return {"T": dt, "s": shape, "v": t.reshape(-1).tolist()}
        if t.numel() <= 64 and t.is_floating_point():
            flat = t.reshape(-1).tolist()
            if all(float(v).is_integer() for v in flat if v == v and abs(v) != float("inf")) and all(v == v for v in flat):
                return {"T": dt, "s": shape, "v": [int(v) if abs(v) != float("inf") else repr(v) for v in flat]}
        if t.is_complex():
            t = torch.view_as_real(t.contiguous())
        if t.dtype in (torch.bfloat16, torch.float16):
            t = t.float()  # numpy has no bfloat16; the conversion is exact
        b = t.contiguous().numpy().tobytes()
        return {"T": dt, "s": shape, "h": hashlib.sha256(b).hexdigest()[:24]}
    if isinstance(obj, (list, tuple)):
        return [canon(o) for o in obj]
    if isinstance(obj, dict):
        return {str(k): canon(v) for k, v in sorted(obj.items(), key=lambda kv: str(kv[0]))}
    if isinstance(obj, (set, frozenset)):
        return sorted((canon(o) for o in obj), key=lambda v: json.dumps(v, sort_keys=True))
    return f"<{type(obj).__name__}>"


def cjson(obj: Any) -> str:
    return json.dumps(obj, sort_keys=True, separators=(",", ":"), default=str)


def short_hash(obj: Any, n: int = 16) -> str:
    return hashlib.sha256(cjson(obj).encode()).hexdigest()[:n]


class EventLog:
    """Per-run event list; `seq` is the only notion of time in the simulation."""

    __slots__ = ("events",)

    def __init__(self) -> None:
        self.events: List[list] = []

    def add(self, kind: str, payload: Any = None) -> int:
        seq = len(self.events)
        self.events.append([seq, kind, canon(payload)])
        return seq

    def __len__(self) -> int:
        return len(self.events)

    def digest(self) -> str:
        return hashlib.sha256(cjson(self.events).encode()).hexdigest()


# --------------------------------------------------------------------------- results


@dataclass
class Violation:
    signature: Dict[str, Any]  # small dict of identifying fields (see DESIGN §8)
    message: str

    def sig_class(self) -> str:
        return cjson(self.signature)


@dataclass
class RunResult:
    digest: str = ""
    n_events: int = 0
    violations: List[Violation] = field(default_factory=list)
    probes: Counter = field(default_factory=Counter)
    faults: Counter = field(default_factory=Counter)
    nontrivial: List[str] = field(default_factory=list)  # hashes of distinct non-trivial cases
    extra_sets: Dict[str, List[str]] = field(default_factory=dict)  # named sets of hashes (e.g. schedules)
    inadmissible: bool = False


class HarnessError(Exception):
    """Raised for failures of the machinery itself; never reported as a property violation."""


def raised_in_library(exc: BaseException) -> bool:
    """True iff the innermost frames of the exception's traceback lie in the library under test (kaira) or below it (torch),
    i.e. a call into the library raised; False when the harness's own code raised."""
    import traceback

    frames = traceback.extract_tb(exc.__traceback__)
    seen_lib = False
    for fr in frames:
        fn = fr.filename.replace("\\", "/")
        if "/kaira/" in fn:
            seen_lib = True
    return seen_lib


def guard_execute(eng):
    """Wrap an engine's execute(): an exception raised inside the library under test (not in harness code) while a case the
    property covers is being run is a violation of that property (the library did not do what the property says), not a
    failure of the machinery.  HarnessError and exceptions raised by harness code pass through."""
    inner = eng.execute
    if getattr(inner, "_guarded", False):
        return inner

    def execute(case):
        try:
            return inner(case)
        except HarnessError:
            raise
        except Exception as e:  # noqa: BLE001
            if not raised_in_library(e):
                raise
            import traceback

            where = ""
            for fr in traceback.extract_tb(e.__traceback__):
                if "/kaira/" in fr.filename.replace("\\", "/"):
                    where = f"{fr.filename.split('/kaira/')[-1]}:{fr.name}"
            res = RunResult()
            log = EventLog()
            log.add("case", case)
            log.add("raised", {"type": type(e).__name__, "where": where})
            res.violations.append(Violation({"component": "library call", "kind": f"exception:{type(e).__name__}", "where": where},
                                            f"{eng.PROPERTY}: a call into the library raised {type(e).__name__} in kaira/{where}: {str(e)[:200]}"))
            res.digest, res.n_events = log.digest(), len(log)
            return res

    execute._guarded = True
    return execute


# --------------------------------------------------------------------------- known findings


def load_known_findings(prop: str) -> List[dict]:
    path = os.path.join(VERIF_DIR, "known_findings.json")
    if not os.path.exists(path):
        return []
    with open(path) as f:
        data = json.load(f)
    return [e for e in data.get("findings", []) if e.get("property") == prop]


def _field_match(want: Any, got: Any) -> bool:
    if isinstance(want, dict) and "any_of" in want:
        return got in want["any_of"]
    return want == got


def match_known(signature: Dict[str, Any], findings: List[dict]) -> Optional[dict]:
    """An *open* finding matches iff every field it lists equals the violation's field."""
    for f in findings:
        if f.get("status") != "open":
            continue
        want = f.get("signature", {})
        if want and all(k in signature and _field_match(v, signature[k]) for k, v in want.items()):
            return f
    return None


# --------------------------------------------------------------------------- replay files


def tree_id() -> Dict[str, str]:
    def run(cmd):
        try:
            return subprocess.run(cmd, cwd=REPO_DIR, capture_output=True, text=True, timeout=30).stdout
        except Exception:
            return ""

    head = run(["git", "rev-parse", "HEAD"]).strip()
    diff = run(["git", "diff", "HEAD", "--", "kaira"])
    return {"repo_head": head, "dirty_sha": hashlib.sha256(diff.encode()).hexdigest()[:16] if diff else ""}


def write_replay(prop: str, engine: str, verif_seed: int, run_seed: int, case: dict, violation: Violation, digest: str, tree: Optional[dict] = None) -> str:
    d = os.path.join(VERIF_DIR, "replays", prop)
    os.makedirs(d, exist_ok=True)
    name = f"{short_hash(violation.signature, 12)}-{run_seed}.json"
    path = os.path.join(d, name)
    doc = {
        "property": prop,
        "engine": engine,
        "verif_seed": verif_seed,
        "run_seed": run_seed,
        "case": case,
        "violation": {"signature": violation.signature, "message": violation.message, "digest": digest},
        "tree": tree or {},
    }
    tmp = path + ".tmp"
    with open(tmp, "w") as f:
        json.dump(doc, f, indent=1, sort_keys=True, default=str)
    os.replace(tmp, path)
    return path


def read_replay(path: str) -> dict:
    with open(path) as f:
        return json.load(f)
