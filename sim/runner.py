"""Batch runner shared by all checks.

An *engine module* (checks/cNN.py) provides:

    PROPERTY, ENGINE, TIERS {tier: {"runs": n, "budget_s": s}}, RULE, ASSUMPTIONS,
    COMPONENTS_REAL, COMPONENTS_STUB, LEVEL ("exploration")
    gen_case(run_seed, index, tier) -> dict          (JSON-able, fully explicit)
    execute(case) -> core.RunResult                  (pure function of the case and /repo)
    shrink_candidates(case) -> iterable of cases     (optional)
    sample_of(case) -> JSON-able                     (optional, compact form for evidence)

Exit codes: 0 held on everything explored (known findings are printed and tolerated),
1 at least one unlisted violation (VIOLATION line printed, replay confirmed in a fresh
interpreter), 2 harness failure (never counts as a pass and writes no evidence).
"""

from __future__ import annotations

import os

os.environ.setdefault("OMP_NUM_THREADS", "1")
os.environ.setdefault("MKL_NUM_THREADS", "1")
os.environ.setdefault("OPENBLAS_NUM_THREADS", "1")

import argparse
import faulthandler
import json
import multiprocessing
import subprocess
import sys
import time
import traceback
from collections import Counter
from concurrent.futures import ProcessPoolExecutor, as_completed
from typing import Any, Dict, List

from . import core
from .core import HarnessError, RunResult, Violation
from .shrink import shrink_case

MAX_CLASSES_REPORTED = 6
CHUNK_TIMEOUT_S = 900

_ENGINE = None  # set in the parent before fork; inherited by the workers


def _quiet_torch() -> None:
    try:
        import torch

        torch.set_num_threads(1)
    except Exception:
        pass


def _run_chunk(args):
    """Executed in a forked worker: run indices [lo, hi) and aggregate."""
    tier, verif_seed, lo, hi, want_digests = args
    eng = _ENGINE
    faulthandler.dump_traceback_later(CHUNK_TIMEOUT_S, exit=True)
    agg: Dict[str, Any] = {
        "evaluations": 0,
        "events": 0,
        "probes": Counter(),
        "faults": Counter(),
        "nontrivial": set(),
        "extra_sets": {},
        "violations": [],  # (index, run_seed, case, signature, message, digest)
        "viol_count": Counter(),
        "digests": {},
        "samples": [],
        "inadmissible": 0,
        "harness_errors": [],
    }
    for idx in range(lo, hi):
        run_seed = core.derive_seed(eng.PROPERTY, verif_seed, idx)
        try:
            case = eng.gen_case(run_seed, idx, tier)
            res: RunResult = eng.execute(case)
        except Exception:
            agg["harness_errors"].append((idx, run_seed, traceback.format_exc()))
            if len(agg["harness_errors"]) > 3:
                break
            continue
        agg["evaluations"] += 1
        agg["events"] += res.n_events
        agg["probes"].update(res.probes)
        agg["faults"].update(res.faults)
        agg["nontrivial"].update(res.nontrivial)
        if res.inadmissible:
            agg["inadmissible"] += 1
        for k, v in res.extra_sets.items():
            agg["extra_sets"].setdefault(k, set()).update(v)
        if want_digests:
            agg["digests"][idx] = res.digest
        if len(agg["samples"]) < 2 and res.nontrivial:
            agg["samples"].append((idx, case))
        for v in res.violations:
            cls = v.sig_class()
            agg["viol_count"][cls] += 1
            if agg["viol_count"][cls] <= 3 and len(agg["violations"]) < 96:
                agg["violations"].append((idx, run_seed, case, v.signature, v.message, res.digest))
    faulthandler.cancel_dump_traceback_later()
    return agg


def _merge(total: Dict[str, Any], part: Dict[str, Any]) -> None:
    total["evaluations"] += part["evaluations"]
    total["events"] += part["events"]
    total["probes"].update(part["probes"])
    total["faults"].update(part["faults"])
    total["nontrivial"].update(part["nontrivial"])
    total["inadmissible"] += part["inadmissible"]
    for k, v in part["extra_sets"].items():
        total["extra_sets"].setdefault(k, set()).update(v)
    total["digests"].update(part["digests"])
    total["samples"].extend(part["samples"])
    total["violations"].extend(part["violations"])
    total["viol_count"].update(part["viol_count"])
    total["harness_errors"].extend(part["harness_errors"])


def _confirm_in_fresh_interpreter(eng, path: str) -> bool:
    """Replay the file in a new interpreter with a different PYTHONHASHSEED; must exit 1."""
    env = dict(os.environ)
    env["PYTHONHASHSEED"] = "12345"
    script = os.path.abspath(sys.modules[eng.__name__].__file__)
    try:
        p = subprocess.run([sys.executable, script, "--replay", path], env=env, capture_output=True, text=True, timeout=600, cwd=core.VERIF_DIR)
    except subprocess.TimeoutExpired:
        return False
    return p.returncode == 1 and "VIOLATION property=" in p.stdout


def do_replay(eng, path: str) -> int:
    doc = core.read_replay(path)
    case = doc["case"]
    want = core.cjson(doc["violation"]["signature"])
    _quiet_torch()
    res = eng.execute(case)
    for v in res.violations:
        if v.sig_class() == want:
            same = res.digest == doc["violation"].get("digest")
            print(f"replayed: {v.message}")
            print(f"digest {'identical' if same else 'DIFFERS'}: {res.digest}")
            print(f"VIOLATION property={eng.PROPERTY} replay={path}")
            return 1
    print(f"did not reproduce: {path} (violations now: {[v.signature for v in res.violations]})")
    return 2


def main(eng) -> int:
    global _ENGINE
    eng.execute = core.guard_execute(eng)  # a library call that raises is a violation, not a harness failure
    ap = argparse.ArgumentParser()
    ap.add_argument("--tier", default=os.environ.get("VERIF_TIER", "quick"), choices=["quick", "thorough"])
    ap.add_argument("--replay")
    ap.add_argument("--runs", type=int)
    ap.add_argument("--start", type=int, default=0)
    ap.add_argument("--workers", type=int, default=int(os.environ.get("VERIF_WORKERS", "0")) or min(16, os.cpu_count() or 1))
    ap.add_argument("--seed", type=int, default=core.verif_seed_from_env())
    ap.add_argument("--digests-out")
    ap.add_argument("--no-evidence", action="store_true")
    ap.add_argument("--budget", type=float)
    a = ap.parse_args()

    if a.replay:
        return do_replay(eng, a.replay)

    t0 = time.time()
    tier_cfg = eng.TIERS[a.tier]
    runs = a.runs if a.runs is not None else tier_cfg["runs"]
    budget = a.budget if a.budget is not None else tier_cfg.get("budget_s", 600)
    chunk = max(1, min(tier_cfg.get("chunk", 200), (runs + a.workers * 4 - 1) // (a.workers * 4)))
    print(f"[{eng.PROPERTY}] engine={eng.ENGINE} tier={a.tier} VERIF_SEED={a.seed} runs={runs} workers={a.workers} chunk={chunk}", flush=True)

    _quiet_torch()
    if hasattr(eng, "warmup"):
        eng.warmup()
    _ENGINE = eng
    findings = core.load_known_findings(eng.PROPERTY)

    total: Dict[str, Any] = {
        "evaluations": 0, "events": 0, "probes": Counter(), "faults": Counter(), "nontrivial": set(),
        "extra_sets": {}, "violations": [], "viol_count": Counter(), "digests": {}, "samples": [],
        "inadmissible": 0, "harness_errors": [],
    }
    jobs = [(a.tier, a.seed, lo, min(lo + chunk, a.start + runs), bool(a.digests_out)) for lo in range(a.start, a.start + runs, chunk)]
    truncated = False
    harness_fail = None
    if a.workers <= 1:
        for j in jobs:
            if time.time() - t0 > budget:
                truncated = True
                break
            _merge(total, _run_chunk(j))
    else:
        ctx = multiprocessing.get_context("fork")
        ex = ProcessPoolExecutor(max_workers=a.workers, mp_context=ctx)
        try:
            pending = {}
            it = iter(jobs)
            # keep at most 2*workers chunks outstanding so the budget can stop the batch early
            for _ in range(a.workers * 2):
                j = next(it, None)
                if j is None:
                    break
                pending[ex.submit(_run_chunk, j)] = j
            while pending:
                done = next(as_completed(list(pending), timeout=CHUNK_TIMEOUT_S + 60))
                pending.pop(done)
                _merge(total, done.result())
                if time.time() - t0 > budget:
                    truncated = True
                else:
                    j = next(it, None)
                    if j is not None:
                        pending[ex.submit(_run_chunk, j)] = j
        except Exception as e:  # dead / hung worker, broken pool
            harness_fail = f"worker pool failure: {type(e).__name__}: {e}"
        finally:
            # a clean batch waits for the (idle) workers to exit, so that no pool thread is left to the interpreter's exit
            # hooks (it printed "Exception ignored ... Bad file descriptor" now and then); a failed pool is abandoned
            ex.shutdown(wait=harness_fail is None, cancel_futures=True)

    if harness_fail or total["harness_errors"]:
        print(f"HARNESS-ERROR property={eng.PROPERTY}: {harness_fail or ''}")
        for idx, rs, tb in total["harness_errors"][:3]:
            print(f"--- harness error at index {idx} run_seed {rs}\n{tb}")
        return 2

    # ---------------------------------------------------------------- violations
    by_class: Dict[str, tuple] = {}
    alternates: Dict[str, list] = {}
    for v in sorted(total["violations"], key=lambda t: t[0]):
        cls = core.cjson(v[3])
        if cls in by_class:
            if len(alternates.setdefault(cls, [])) < 4:
                alternates[cls].append(v)
        by_class.setdefault(cls, v)
    known_hit: Dict[str, int] = {}
    known_desc: Dict[str, str] = {}
    unlisted: List[tuple] = []
    for cls, v in by_class.items():
        f = core.match_known(v[3], findings)
        if f is not None:
            known_hit[f["id"]] = known_hit.get(f["id"], 0) + total["viol_count"][cls]
            known_desc[f["id"]] = f.get("what", "")
        else:
            unlisted.append(v)
    for fid, n in sorted(known_hit.items()):
        print(f"KNOWN-FINDING: property={eng.PROPERTY} {fid}: {known_desc[fid][:220]} (hit {n}x)")

    exit_code = 0
    tree = core.tree_id() if unlisted else {}
    reported = 0
    unconfirmed = 0
    for v in unlisted:
        if reported >= MAX_CLASSES_REPORTED or reported + unconfirmed >= 2 * MAX_CLASSES_REPORTED:
            break
        confirmed = False
        for cand in [v] + alternates.get(core.cjson(v[3]), []):
            idx, run_seed, case, sig, msg, digest = cand
            viol = Violation(sig, msg)
            small, sres, sviol = shrink_case(eng, case, viol)
            path = core.write_replay(eng.PROPERTY, eng.ENGINE, a.seed, run_seed, small, sviol, sres.digest, tree)
            if _confirm_in_fresh_interpreter(eng, path):
                confirmed = True
                break
            try:
                os.remove(path)
            except OSError:
                pass
            # minimisation runs in this (parent) process; if the library keeps process-global state the minimised
            # case may owe its failure to an earlier candidate.  Fall back to the case exactly as the worker ran it.
            sviol = viol
            path = core.write_replay(eng.PROPERTY, eng.ENGINE, a.seed, run_seed, case, viol, digest, tree)
            if _confirm_in_fresh_interpreter(eng, path):
                confirmed = True
                break
            try:
                os.remove(path)
            except OSError:
                pass
        if confirmed:
            print(f"violation (index {idx}, run_seed {run_seed}, {total['viol_count'][core.cjson(sig)]}x in this batch): {sviol.message}")
            print(f"VIOLATION property={eng.PROPERTY} replay={path}", flush=True)
            exit_code = 1
            reported += 1
        else:
            # Not reproducible from the case alone: the outcome depended on what this worker process had
            # executed before (process-global state in the library or in the harness).  Never shown as a
            # violation; if nothing replayable is found in the batch the run ends as a harness failure.
            unconfirmed += 1
            print(f"UNCONFIRMED property={eng.PROPERTY}: a violation seen in a worker did not replay in a fresh interpreter (process-history dependent): {sviol.message[:300]}")
    if len(unlisted) > reported + unconfirmed:
        print(f"({len(unlisted) - reported - unconfirmed} further distinct violation classes not written out)")
    if unconfirmed and exit_code == 0:
        print(f"HARNESS-ERROR property={eng.PROPERTY}: {unconfirmed} violation class(es) seen in workers but none reproducible from its case alone")
        return 2

    # ---------------------------------------------------------------- evidence
    wall = time.time() - t0
    if a.digests_out:
        with open(a.digests_out, "w") as f:
            json.dump({str(k): v for k, v in sorted(total["digests"].items())}, f)
    if not a.no_evidence:
        samples = [(eng.sample_of(c) if hasattr(eng, "sample_of") else c) for _, c in sorted(total["samples"], key=lambda t: t[0])[:3]]
        cov = {
            "evaluations": total["evaluations"],
            "distinct_nontrivial": len(total["nontrivial"]),
            "rule": eng.RULE,
            "samples": samples,
            "exhaustive": False,
            "planned_runs": runs,
            "truncated_by_budget": truncated,
            "runs_per_hour": int(total["evaluations"] / max(wall, 1e-9) * 3600),
            "events_total": total["events"],
            "simulated_time_note": getattr(eng, "SIMULATED_TIME_NOTE", "no clocks/timers exist on this property's path; simulated time = logical event count (events_total)"),
            "faults_fired": dict(sorted(total["faults"].items())),
            "probes": dict(sorted(total["probes"].items())),
            "inadmissible_cases": total["inadmissible"],
            "components_real": eng.COMPONENTS_REAL,
            "components_stub": eng.COMPONENTS_STUB,
            "known_findings_hit": known_hit,
            "violation_classes_unlisted": len(unlisted),
            "workers": a.workers,
        }
        for k, s in total["extra_sets"].items():
            cov[f"distinct_{k}"] = len(s)
        if hasattr(eng, "evidence_extra"):
            cov.update(eng.evidence_extra(total))
        ev = {
            "property_id": eng.PROPERTY,
            "tier": a.tier,
            "seed": a.seed,
            "level": getattr(eng, "LEVEL", "exploration"),
            "coverage": cov,
            "assumptions": eng.ASSUMPTIONS,
            "wall_s": round(wall, 2),
            "violations": sum(total["viol_count"][core.cjson(v[3])] for v in unlisted),
        }
        os.makedirs(os.path.join(core.VERIF_DIR, "evidence"), exist_ok=True)
        path = os.path.join(core.VERIF_DIR, "evidence", f"{eng.PROPERTY}.json")
        with open(path + ".tmp", "w") as f:
            json.dump(ev, f, indent=1, sort_keys=True, default=str)
        os.replace(path + ".tmp", path)
    print(f"[{eng.PROPERTY}] {total['evaluations']} runs, {len(total['nontrivial'])} distinct non-trivial, {total['events']} events, "
          f"{sum(total['faults'].values())} faults fired, {len(unlisted)} unlisted violation classes, {len(known_hit)} known findings hit, {wall:.1f}s"
          + (" (truncated by budget)" if truncated else ""), flush=True)
    return exit_code
