#!/usr/bin/env python3
"""Generate /verif/MANIFEST.json from the table below (single source of truth) and validate it."""
import json, os, sys
HERE = os.path.dirname(os.path.dirname(os.path.abspath(__file__)))
PY = "/venv/bin/python"
BASE = json.load(open("/root/.vp/BASELINE.json"))

CHECKS = {
 "C17": dict(engine="schedsim", design="§3",
   technique="deterministic simulation: real pipeline models driven under a simulated thread pool and virtual clock whose start/finish/yield/timeout decisions and per-branch durations come from a seeded, replayable scheduler (completion orders, worker limits, failing branches, timeouts firing, overlapping forwards of one shared object, guard-chain conditions, nested pipelines, add/remove/replace histories, the constructor's list kept and edited by the caller or shared with a second pipeline, bit-identical feedback in every round); list-model oracle over the recorded stage trace",
   text="Seeded search over thread-pool schedules (start/finish interleavings under the worker limit, order of already-finished futures), injected branch failures and add/remove histories, on the real ParallelModel/Sequential/Branching/Feedback/MAC/Wyner-Ziv code with recording stub stages. A clean batch is evidence over the sampled schedules, not a proof; for <=4 branches every yield permutation is in practice reached (measured in the evidence).",
   note="Trusted: the simulated executor's fidelity to ThreadPoolExecutor/as_completed semantics, CPython Future, atomic branch bodies (no pre-emption inside a stage), the list-model oracle."),
 "C16": dict(engine="histsim", design="§5.1",
   technique="deterministic simulation: seeded delivery layer (fragmenting, coalescing, reordering, interleaved compute/reset, resets with and without a read-out, equal-size epochs) in front of one long-lived metric object (one-shot and rejected calls on the live object, batches in other dtypes, aliased argument pairs, layout variation), checked operation by operation against a two-integer reference model; a call that raises must be atomic or absent",
   text="Seeded search over update/compute/reset histories and batch partitions of a data stream on the real BitErrorRate/BlockErrorRate objects (all aliases and registry names) with a reference counter; one-shot clauses (exact fraction, symmetry, zero-iff-equal, BER<=BLER<=min(1,B*BER), helper agreement, non-divisor rejection) are per-step checks in the same runs. Evidence over sampled histories, not a proof.",
   note="Trusted: the reference counter (two Python integers), float32 tolerance 2e-6 relative; nothing asserted about an object after a rejected call or about forward() touching accumulators."),
 "C12": dict(engine="rngsim", design="§6.2",
   technique="deterministic simulation of the channel's fault process: simulator-owned random source (torch.manual_seed per run, replayable realisation); exact support invariants on every sample, exact-binomial tests on rates, symmetry, per-call event-count distribution and disjoint-pair independence within a call and between consecutive calls, with a 1e-9 per-run false-alarm bound; sibling objects swept in place",
   text="Seeded realisations of BSC/BEC/Z over probabilities, alphabets, dtypes and shapes; support invariants are exact on every sample, distributional clauses are decided up to the stated error probability and the resolution ~1e6 symbols allow.",
   note="Trusted: torch's generator is the only random source; exact binomial tails from scipy; per-test level 5e-15."),
 "C07": dict(engine="rngsim", design="§6.1",
   technique="deterministic simulation: simulator-owned random source and injected noise; same-seed scaling relations between two replayed runs (exact), verbatim-noise identity (exact), agreement of the library's SNR tools with the definition (exact), and z-tests with analytic variances for mean/power/SNR (1e-9 per-run false-alarm bound)",
   text="Seeded realisations of AWGN, Laplacian, nonlinear-with-noise, the noise stage of flat fading (csi supplied) and add_noise_for_snr over real/complex inputs, six decades of signal power, SNR -20..40 dB. Exact relations hold on every realisation; power/SNR are decided up to the stated error probability at N~1e6 (a 0.5 % power error is invisible, a 3 dB or dB/20 error is not).",
   note="Trusted: torch's generator is the only random source; the draw count does not depend on the configured power (else the scaling relation is recorded not-applicable); analytic fourth moments of Gaussian/Laplace laws."),
 "C13": dict(engine="rngsim", design="§6.3",
   technique="deterministic simulation: simulator-owned random source of the fading process plus injected csi/noise; exact y=h*x+n identity, exact block-constancy with injected zero noise, and moment/correlation tests with analytic variances (1e-9 per-run false-alarm bound)",
   text="Seeded realisations of Rayleigh/Rician/log-normal flat fading (generic and convenience classes) over coherence times incl. non-divisors, real/complex, 1-D..4-D shapes. Structure is exact on every case; E|h|^2, K-factor, independence across blocks/items and noise calibration against the faded signal are decided up to the stated error probability at ~1e6 blocks.",
   note="Trusted: torch's generator is the only random source; csi/noise supplied in the channel's (batch, flattened sequence) layout; no normalisation asserted for log-normal."),
 "C09": dict(engine="linksim", design="§4",
   technique="deterministic simulation with fault injection on the link: the real ChannelCodeModel (encoder, modulator, constraint, demodulator, decoder) with a simulator-owned channel that places in-budget bit flips / symbol displacements from an explicit, replayable plan, plus the library's own BSC/AWGN under a seeded generator with post-hoc budget classification and the library's channels configured as ideal; earlier calls on the same chain (whose results the caller overwrites) precede the judged call; oracle: delivered message == sent message on every in-budget row",
   text="Seeded search over (code, decoder, modulation, layout, message, fault plan) with the harness-placed damage at weight exactly t and displacement up to 0.98*d_min/2, hard and soft paths. Evidence over the sampled fault sequences; small codes see every weight-<=t pattern only in the thorough tier and only as measured in the evidence.",
   note="Trusted: advertised d of the code object, harness d_min from the published constellation, TapModulator/TapDemodulator/FaultChannel harness stages, the narrow relaxations stated in DESIGN §4.4 (multi-block rows may be rejected; over-budget random realisations assert nothing)."),
 "C02": dict(engine="linksim", design="§4",
   technique="deterministic simulation with fault injection: the modulation-free configuration of the link simulator — the simulator owns the channel between encoder and hard decoder and injects exactly-w bit flips (w <= advertised t) or arbitrary received words from an explicit, replayable plan; strict oracle for clause 1, deliberately narrowed oracle (distance of the answer = minimum distance to the codebook) for clause 2",
   text="Seeded search over (code, hard decoder, messages, flip patterns / received words) with a deterministic walk over messages and patterns for codes with n <= 15. Sampling, not the exhaustive sweep the quantifier text mentions; the evidence reports how many distinct patterns per small code the batch visited.",
   note="Trusted: advertised d; reference codebook enumerated by encoding all 2^k messages with the real encoder (k <= 12); one block per row."),
 "C05": dict(engine="histsim", design="§5.3",
   technique="deterministic simulation of call histories: a seeded, replayable pre-history of mode toggles, train/eval forwards on differing batch shapes and resets drives one modulator/demodulator pair, optionally another frame is modulated in between, a sibling pair with the other labeling is used first in the same process, the frame buffer is one tensor object refilled in place, then the post-reset eval-mode round trip through an ideal channel is compared with a reference model of each scheme's start-up loss; sequences walk every symbol and every ordered symbol pair",
   text="Seeded search over (scheme, order, labeling, construction path, pre-history, layout, bit sequence). For memoryless schemes this degenerates to the zero-fault configuration of the link; for DPSK/OQPSK/pi4-QPSK the history is what makes the state matter. Evidence over sampled histories; all-symbol and all-pair sequences are exhaustive per case for orders <= 16.",
   note="Trusted: the 20-line reference of start-up loss (DPSK drops the reference symbol's bits; OQPSK delays Q by one symbol, first Q slot unspecified); nothing asserted about train-mode outputs or pre-history calls."),
 "C20": dict(engine="histsim", design="§5.2",
   technique="deterministic simulation of a batching layer: a seeded, replayable history of calls on one shared component instance (singletons, permuted batches, (n,)/(B,n)/(B1,B2,n)/(B,b*n) layouts, stride-0 batches, repeats, interleaved fresh instances, returned tensors overwritten by the caller or kept and compared after every later call) checked with the answer-set rule — every successful evaluation of a sample must give the same answer whatever batch, position, layout, neighbours or call history; inputs cloned and compared",
   text="Seeded search over (component, sample pool with special members, call history) across every encoder, hard/soft decoder, memoryless modulator/demodulator and per-item constraint. Evidence over the sampled histories; a layout the component rejects contributes nothing and is counted.",
   note="Trusted: the component's own answers are the only reference (no independent model needed); exact comparison for bit outputs, rtol 1e-4 for float outputs; float-path ties are not generated because torch kernels decide them by last-ulp rounding."),
}

NOT_APPLICABLE = {
 "C01": "static linear algebra of a constructed G/H pair: no schedule, random realisation, call history or in-transit fault to simulate (DESIGN §7)",
 "C03": "true (n,k,d), cyclic closure and sphere-packing are static facts of a constructed code, decided by enumeration, not by running anything under faults (DESIGN §7)",
 "C04": "encode-then-extract is a composition of two pure functions of the message; nothing for a scheduler or fault injector to decide (DESIGN §7)",
 "C06": "decision regions and max-log LLR values are a pure function over a continuum of received points; the only slice with a fault in it (bounded displacement) is exercised inside C09 (DESIGN §7)",
 "C08": "constraints are stateless per-item maps; limits, idempotence and composition are input-output facts (DESIGN §7)",
 "C10": "exactness of soft decoders is a numerical statement about pure functions of the LLR vector (DESIGN §7)",
 "C11": "polar transform, information set and SC rule are pure functions of (message, LLR) (DESIGN §7)",
 "C14": "constellation tables, labelings and Gray conversions are static data and integer bijections (DESIGN §7)",
 "C15": "LLR polarity is a static convention between pure producers and consumers; a mismatch on a link surfaces under C09 (DESIGN §7)",
 "C18": "ring/field axioms of pure integer bit-mask arithmetic (DESIGN §7)",
 "C19": "differentiability is decided by comparing derivatives; no schedule, fault or history in the statement (DESIGN §7)",
}

def main():
    props = [json.loads(l)["id"] for l in open(os.path.join(HERE, "properties.jsonl"))]
    # properties planned but whose check is not built yet stay under not_applicable with an explicit 'not yet built' reason
    PENDING = {p: "check planned (DESIGN §0) but not built yet in this tree; not claimed until it is" for p in props if p not in CHECKS and p not in NOT_APPLICABLE}
    checks = []
    for pid in props:
        if pid not in CHECKS:
            continue
        c = CHECKS[pid]
        script = f"checks/{pid.lower()}.py"
        checks.append({
            "property_id": pid,
            "quick_cmd": f"timeout 900 {PY} {script} --tier quick",
            "thorough_cmd": f"timeout 7200 {PY} {script} --tier thorough",
            "evidence_file": f"/verif/evidence/{pid}.json",
            "replay_cmd_template": f"{PY} {script} --replay {{path}}",
            "engine": c["engine"],
            "level_claimed": {"category": "exploration", "text": c["text"], "design_ref": f"DESIGN.md {c['design']}"},
            "level_note": c["note"],
            "technique": c["technique"],
        })
    man = {
        "version": 1,
        "setup_cmd": f"{PY} checks/selftest_determinism.py --quick",
        "hooks": {
            "guard": "KAIRA_VERIF",
            "enable": "no hooks are needed: every seam (module-level executor names, torch.manual_seed, noise=/csi= arguments, pluggable pipeline stages, the public call API) already exists in /repo; KAIRA_VERIF is reserved and unused",
            "baseline_off_cmd": BASE["cmd"].replace("<file>", "/var/tmp/kaira-baseline.junit.xml"),
            "source_commits": [],
            "add_only": True,
        },
        "engines": [
            {"name": "schedsim", "path": "sim/schedsim.py", "serves_properties": ["C17"], "kind_free_text": "simulated thread pool with seeded scheduler (E1)"},
            {"name": "linksim", "path": "sim/linksim.py", "serves_properties": ["C09", "C02"], "kind_free_text": "fault-injecting channel inside the real ChannelCodeModel link (E2)"},
            {"name": "histsim", "path": "sim/histsim.py", "serves_properties": ["C16", "C20", "C05"], "kind_free_text": "seeded call histories / delivery layer against reference models (E3)"},
            {"name": "rngsim", "path": "sim/rngsim.py", "serves_properties": ["C07", "C12", "C13"], "kind_free_text": "seeded random-source runs of the stochastic channels with exact and bounded-error statistical oracles (E4)"},
        ],
        "checks": checks,
        "notes": "All checks are Python run with /venv/bin/python against /repo's working tree through the editable install (no build step). Exit codes: 0 held, 1 VIOLATION (replay confirmed in a fresh interpreter), 2 harness failure. Known findings: /verif/known_findings.json.",
        "not_applicable": [{"property_id": p, "reason": r} for p, r in sorted({**NOT_APPLICABLE, **PENDING}.items())],
    }
    path = os.path.join(HERE, "MANIFEST.json")
    json.dump(man, open(path, "w"), indent=1)
    try:
        import jsonschema
        jsonschema.validate(man, json.load(open("/root/.vp/MANIFEST.schema.json")))
        print("MANIFEST.json valid;", len(checks), "checks,", len(man["not_applicable"]), "not applicable")
    except ImportError:
        print("jsonschema not available; wrote MANIFEST.json unvalidated")

if __name__ == "__main__":
    main()
