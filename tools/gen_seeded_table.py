#!/usr/bin/env python3
"""Rewrite DESIGN.md §14 (seeded breakages) from seeded/*/meta.json."""
import glob
import json
import os
import re

VERIF = os.path.dirname(os.path.dirname(os.path.abspath(__file__)))

INTRO = '''## 14. Seeded breakages: which check catches which change

{n} changes to ipc-lab/kaira were produced by fresh sub-agents that were given only the text of
one property (statement, quantifier, anchors) and their own scratch worktree of /repo — nothing
from /verif. Each had to break its property while still importing and passing the pinned suite,
and had to need something specific to manifest. Round 1 asked for realistic, subtle slips;
round 2 was told what round 1 had produced and asked for narrower conditions (one option or
dtype, a size threshold, a second call on the same object, two cooperating sites); round 3 was
told that everything so far is detected by a checker that runs randomly generated
configurations, histories, schedules and fault patterns against a reference, and was asked for
what such a checker would still overlook; round 4 was told the same about the widened checker
(dtypes, sizes, object histories, casts, copies, sibling objects) and asked for yet another
kind of slip; round 5 was told about the round-4 widenings as well and asked to prefer realistic
conditions over rare ones; round 6 was asked for maintenance-type mistakes (refactors,
vectorisation, API tidy-ups, shortcuts, caches, dtype hygiene) in code paths the earlier rounds
had not touched; round 7 was given, besides the property, a one-line summary of every earlier
change to its property (file touched and what it did, nothing about the checks) and asked for
mechanisms not yet used: state that survives between calls, caches with incomplete keys,
two sites that must agree. Every change was confirmed before being kept: the patch applies, the library
imports, the demonstration exits non-zero with the change and zero without, and all 1848
baseline-passing tests still pass with it (`tools/eval_mutation.py`, scratch worktree under
/tmp, removed afterwards). The checks are run against each change applied to /repo itself
(`git -C /repo apply`, registered quick command, `git apply -R` + `git checkout -- .`;
`tools/run_seeded.py`); every run is appended to `seeded/<id>/meta.json`.

"first run" is the outcome of the property's own quick check as it stood when the change
arrived; "now" is the outcome of the last full re-run of the quick checks ("thorough tier only":
the quick tier cannot reach the condition by construction, the thorough tier contains a case
that does, confirmed by hand; "not detected": see the note). A miss was always traced to a dimension
the generator did not vary (never to an oracle that had to be loosened or re-interpreted); the
generator was widened, the note under the table says how, and the unchanged tree was re-run to
make sure the wider generator raises no alarm there.

| round | first run | now |
|-------|-----------|-----|
{summary}

The six changes that the property's own quick check does not report today: two are reached by
the thorough tier only, by construction (C09-r4-m1: 2^24 uses of an ideal library channel;
C16-r4-m2: 2^31 accumulated blocks); one is reported by C09 instead of C02 (C02-r6-m2: rows of
several blocks, which C02 does not generate); three are not detected and are listed with the
reason in §11 (C09-r5-m1 process-wide default dtype, C07-r6-m2 float16 signals, C12-r6-m2
pre-emption inside a component's forward).

| id | the change (what it needs to manifest is in seeded/<id>/notes.md) | first run | now |
|----|--------------------------------------------------------------------|-----------|-----|
'''


def main():
    rows, notes = [], []
    per_round = {}
    for d in sorted(glob.glob(os.path.join(VERIF, "seeded", "C*-r*-m*"))):
        mp = os.path.join(d, "meta.json")
        if not os.path.exists(mp):
            continue
        m = json.load(open(mp))
        txt = m.get("needs_to_manifest", "")
        first = [l.strip() for l in txt.splitlines() if l.strip()]
        title = re.sub(r"^[#\s]*m[12]\s*[-–—:.]*\s*", "", first[0]) if first else ""
        title = title.replace("|", "/")[:160]
        runs = m.get("runs", [])
        P = m["property"]
        missed_first = bool(m.get("strengthening")) or (m.get("first_sight", {}).get("caught") is False)
        others = [c for c in (runs[-1].get("caught_by", []) if runs else []) if c != P]
        if runs and P in runs[-1].get("caught_by", []):
            now = "caught"
        elif others:
            now = "caught by " + ",".join(others)
        elif m.get("thorough_only"):
            now = "thorough tier only"
        elif m.get("not_taken_up"):
            now = "not detected"
        else:
            now = "MISSED"
        rows.append(f"| {m['id']} | {title} | {'MISSED' if missed_first else 'caught'} | {now} |")
        r = m.get("round", 0)
        pr = per_round.setdefault(r, [0, 0, 0])
        pr[0] += 1
        pr[1] += 0 if missed_first else 1
        pr[2] += 1 if now == "caught" else 0
        if missed_first:
            notes.append(f"* **{m['id']}** — {m['strengthening']}")
    summary = "\n".join(f"| {r} | {v[1]} of {v[0]} | {v[2]} of {v[0]} |" for r, v in sorted(per_round.items()))
    tot = [sum(v[i] for v in per_round.values()) for i in range(3)]
    summary += f"\n| all | {tot[1]} of {tot[0]} | {tot[2]} of {tot[0]} |"
    body = INTRO.format(n=tot[0], summary=summary) + "\n".join(rows) + "\n\nWhat each miss changed in the machinery:\n\n" + "\n".join(notes) + '''

Besides the independent changes, `checks/selftest_sensitivity.py` keeps 22 deliberate one-line
breakages of my own (the table of §2.7); all 22 are reported (`seeded/sensitivity_last.json`).

Cross-catching was not measured exhaustively (9 checks x all changes); the table lists the
property's own check only. Where a change sits on a shared path the neighbouring checks see it
too (the Berlekamp-Massey, syndrome-table and Hamming-inverse changes are reported by both C02
and C09; the pi/4-QPSK state changes by C05 and C09), but nothing is claimed from that.
'''
    p = os.path.join(VERIF, "DESIGN.md")
    s = open(p).read()
    i = s.index("## 14. Seeded breakages")
    open(p, "w").write(s[:i] + body)
    print(summary)


if __name__ == "__main__":
    main()
