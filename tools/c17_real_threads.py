#!/venv/bin/python
"""Confirmation only (DESIGN §3.5): replay simulated ParallelModel schedules on REAL threads.

For N generated parallel cases the completion order the simulated executor chose is imposed on
the real ThreadPoolExecutor by making branch i sleep rank_i * 3 ms (the case's
`fallback_real_threads` mode: no simulated names are installed).  The order of the
already-finished set inside the real as_completed cannot be imposed, so agreement is not
guaranteed; what is reported is, per case, whether the simulated run and the real-thread run
agree on "violation / no violation".  A violation seen in simulation AND with real threads
shows that the executor model produces schedules the real pool produces too; a miss proves
nothing and is never reported as anything.  Run against a tree by PYTHONPATH=<tree>.
"""
import copy
import os
import sys

sys.path.insert(0, os.path.dirname(os.path.dirname(os.path.abspath(__file__))))
sys.path.insert(0, os.path.join(os.path.dirname(os.path.dirname(os.path.abspath(__file__))), "checks"))

import c17  # noqa: E402
from sim import core, schedsim  # noqa: E402


def main():
    n = int(sys.argv[1]) if len(sys.argv) > 1 else 300
    both = sim_only = real_only = neither = 0
    i = done = 0
    while done < n and i < 50 * n:
        rs = core.derive_seed("C17", 0, i)
        i += 1
        case = c17.gen_case(rs, i, "quick")
        if case["kind"] != "parallel" or len(case["branches"]) < 2 or case.get("fail"):
            continue
        case["ops"] = [op for op in case["ops"] if op[0] == "forward"][:1]
        done += 1
        sim_res = c17.execute(case)
        # the finish order the simulated scheduler produced for this forward
        log = c17.Ctx(case).log
        ctx = c17.Ctx(case)
        c17.run_parallel(ctx)
        fin = [e[2]["task"] for e in ctx.log.events if e[1] == "sched.finish"]
        names = list(case["branches"])
        order = [names[t] for t in fin if t < len(names)]
        real = copy.deepcopy(case)
        real["fallback_real_threads"] = True
        real["fallback_order"] = order
        real_res = c17.execute(real)
        s, r = bool(sim_res.violations), bool(real_res.violations)
        both += s and r
        sim_only += s and not r
        real_only += r and not s
        neither += (not s) and (not r)
    print(f"parallel cases: {done}; violation in simulation and on real threads: {both}; simulation only: {sim_only}; real threads only: {real_only}; neither: {neither}")


if __name__ == "__main__":
    main()
