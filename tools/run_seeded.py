#!/usr/bin/env python3
"""Re-run the registered quick checks against every confirmed seeded change under /verif/seeded.

For each seeded/<id>/: `git -C /repo apply patch.diff`, run the check(s) of its property (plus
any listed with --also), undo the patch, and append the outcome to meta.json["runs"] together
with the /verif commit.  Prints the table that DESIGN §14 is built from.  /repo must be clean;
it is restored after every patch whatever happens.

    run_seeded.py [--only C17-r1-m2,...] [--also C20]
"""
import argparse
import glob
import json
import os
import subprocess
import sys
import time

VERIF = os.path.dirname(os.path.dirname(os.path.abspath(__file__)))
REPO = "/repo"


def sh(cmd, cwd=None, env=None, timeout=3600):
    p = subprocess.run(cmd, shell=isinstance(cmd, str), cwd=cwd, env=env, capture_output=True, text=True, timeout=timeout)
    return p.returncode, p.stdout, p.stderr


def main():
    ap = argparse.ArgumentParser()
    ap.add_argument("--only")
    ap.add_argument("--also", default="")
    ap.add_argument("--seed", default="0")
    a = ap.parse_args()
    rc, out, _ = sh(["git", "-C", REPO, "status", "--porcelain", "--untracked-files=no"])
    if out.strip():
        print("refusing: /repo has uncommitted changes")
        return 2
    commit = sh(["git", "-C", VERIF, "rev-parse", "--short", "HEAD"])[1].strip()
    dirty = bool(sh(["git", "-C", VERIF, "status", "--porcelain", "--untracked-files=no"])[1].strip())
    man = json.load(open(os.path.join(VERIF, "MANIFEST.json")))
    cmds = {c["property_id"]: c["quick_cmd"] for c in man["checks"]}
    rows = []
    for d in sorted(glob.glob(os.path.join(VERIF, "seeded", "C*-r*-m*"))):
        name = os.path.basename(d)
        if a.only and name not in a.only.split(","):
            continue
        meta_p = os.path.join(d, "meta.json")
        meta = json.load(open(meta_p)) if os.path.exists(meta_p) else {"id": name, "property": name.split("-")[0]}
        patch = os.path.join(d, "patch.diff")
        checks = [meta["property"]] + [c for c in a.also.split(",") if c and c != meta["property"]]
        rc, o, e = sh(["git", "-C", REPO, "apply", patch])
        if rc != 0:
            rows.append((name, "PATCH DOES NOT APPLY", ""))
            continue
        run = {"verif_commit": commit + ("+dirty" if dirty else ""), "seed": int(a.seed), "checks": {}}
        try:
            for cid in checks:
                t0 = time.time()
                rc, o, e = sh(cmds[cid], cwd=VERIF, env=dict(os.environ, VERIF_SEED=a.seed), timeout=3600)
                viol = [l for l in o.splitlines() if l.startswith("VIOLATION")]
                first = next((l for l in o.splitlines() if l.startswith("violation (")), "")
                run["checks"][cid] = {"exit": rc, "violation_lines": len(viol), "wall_s": round(time.time() - t0, 1), "first_violation": first[:400]}
        finally:
            sh(["git", "-C", REPO, "apply", "-R", patch])
            sh(["git", "-C", REPO, "checkout", "--", "."])
        caught = [c for c, r in run["checks"].items() if r["exit"] == 1 and r["violation_lines"] > 0]
        run["caught_by"] = caught
        meta.setdefault("runs", []).append(run)
        meta["caught_by"] = caught
        json.dump(meta, open(meta_p, "w"), indent=1)
        rows.append((name, ",".join(caught) or "MISSED", "; ".join(f"{c}: exit {r['exit']} in {r['wall_s']}s" for c, r in run["checks"].items())))
        print(f"{name:14s} {rows[-1][1]:10s} {rows[-1][2]}", flush=True)
    rc, out, _ = sh(["git", "-C", REPO, "status", "--porcelain", "--untracked-files=no"])
    print("repo clean after:", not out.strip())
    missed = [r for r in rows if r[1] in ("MISSED", "PATCH DOES NOT APPLY")]
    print(f"{len(rows) - len(missed)} of {len(rows)} seeded changes caught")
    return 1 if missed else 0


if __name__ == "__main__":
    sys.exit(main())
