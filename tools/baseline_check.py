#!/usr/bin/env python3
"""Run the repository's pinned test suite (command from /root/.vp/BASELINE.json) on /repo's
working tree and compare the set of passing tests with the baseline's stable_pass list.
Exit 0 iff every baseline-passing test still passes."""
import json, os, subprocess, sys, tempfile, xml.etree.ElementTree as ET

base = json.load(open("/root/.vp/BASELINE.json"))
out = tempfile.mktemp(suffix=".junit.xml", dir="/var/tmp")
cmd = base["cmd"].replace("<file>", out)
print("running:", cmd, flush=True)
p = subprocess.run(cmd, shell=True, capture_output=True, text=True)
passed = set()
for tc in ET.parse(out).getroot().iter("testcase"):
    if not any(ch.tag in ("failure", "error", "skipped") for ch in tc):
        passed.add(f"{tc.get('classname')}::{tc.get('name')}")
os.remove(out)
want = set(base["stable_pass"])
missing = sorted(want - passed)
print(f"baseline stable_pass={len(want)} passing_now={len(passed)} missing={len(missing)}")
for m in missing[:40]:
    print("  MISSING", m)
print(p.stdout.strip().splitlines()[-1] if p.stdout.strip() else "")
sys.exit(1 if missing else 0)
