#!/usr/bin/env python3
"""Confirm a seeded change and run the checks against it.

    eval_mutation.py --patch P --demo D --checks C17,C20 [--skip-baseline] [--tier quick]

1. scratch worktree of /repo (under /tmp, removed afterwards): apply the patch there, run the
   demonstration (must exit non-zero with the change, zero on /repo itself), run the pinned
   test-suite there (every baseline-passing test must still pass);
2. on /repo itself: `git apply` the patch, run the named checks' quick commands, and undo it
   (`git apply -R` + `git checkout -- .`) whatever happens.
Prints a JSON summary; exit 0 iff every step behaved as a valid seeded change requires.
"""
import argparse
import json
import os
import re
import shutil
import subprocess
import sys
import tempfile
import time
import xml.etree.ElementTree as ET

VERIF = os.path.dirname(os.path.dirname(os.path.abspath(__file__)))
REPO = "/repo"
PY = "/venv/bin/python"


def sh(cmd, cwd=None, env=None, timeout=3600):
    p = subprocess.run(cmd, shell=isinstance(cmd, str), cwd=cwd, env=env, capture_output=True, text=True, timeout=timeout)
    return p.returncode, p.stdout, p.stderr


def baseline_in(wt):
    base = json.load(open("/root/.vp/BASELINE.json"))
    out = tempfile.mktemp(suffix=".junit.xml", dir="/var/tmp")
    cmd = base["cmd"].replace("<file>", out).replace("cd /repo", f"cd {wt}")
    env = dict(os.environ, PYTHONPATH=wt, OMP_NUM_THREADS="2", MKL_NUM_THREADS="2")  # several suites may run side by side
    sh(cmd, env=env, timeout=3600)
    passed = set()
    for tc in ET.parse(out).getroot().iter("testcase"):
        if not any(ch.tag in ("failure", "error", "skipped") for ch in tc):
            passed.add(f"{tc.get('classname')}::{tc.get('name')}")
    os.remove(out)
    missing = sorted(set(base["stable_pass"]) - passed)
    return missing


def main():
    ap = argparse.ArgumentParser()
    ap.add_argument("--patch", required=True)
    ap.add_argument("--demo")
    ap.add_argument("--checks", required=True)
    ap.add_argument("--skip-baseline", action="store_true")
    ap.add_argument("--tier", default="quick")
    ap.add_argument("--seed", default="0")
    ap.add_argument("--phase", default="both", choices=["both", "wt", "repo"])
    a = ap.parse_args()
    patch = os.path.abspath(a.patch)
    res = {"patch": patch, "steps": {}}
    ok = True
    if a.phase != "wt":
        rc, out, _ = sh(["git", "-C", REPO, "status", "--porcelain", "--untracked-files=no"])
        if out.strip():
            print("refusing: /repo has uncommitted changes:\n" + out)
            return 2
    # ---- 1. scratch worktree
    wt = tempfile.mkdtemp(prefix="ev-", dir="/tmp")
    os.rmdir(wt)
    try:
        if a.phase == "repo":
            raise StopIteration
        sh(["git", "-C", REPO, "worktree", "add", "-q", "--detach", wt, "HEAD"])
        rc, o, e = sh(["git", "-C", wt, "apply", patch])
        res["steps"]["applies"] = rc == 0
        if rc != 0:
            res["steps"]["apply_error"] = e[-400:]
            ok = False
        else:
            rc, o, e = sh([PY, "-c", "import kaira; print(kaira.__file__)"], cwd=wt, env=dict(os.environ, PYTHONPATH=wt))
            res["steps"]["imports"] = rc == 0 and wt in o
            ok &= res["steps"]["imports"]
            if a.demo:
                demo = os.path.abspath(a.demo)
                rc1, o1, e1 = sh([PY, demo], cwd=wt, env=dict(os.environ, PYTHONPATH=wt), timeout=1200)
                rc0, o0, e0 = sh([PY, demo], cwd=REPO, env=dict(os.environ, PYTHONPATH=REPO), timeout=1200)
                res["steps"]["demo_with_change_exit"] = rc1
                res["steps"]["demo_without_change_exit"] = rc0
                res["steps"]["demo_output"] = (o1 + e1)[-300:]
                ok &= rc1 != 0 and rc0 == 0
            if not a.skip_baseline:
                t0 = time.time()
                missing = baseline_in(wt)
                res["steps"]["baseline_missing"] = missing[:10]
                res["steps"]["baseline_s"] = round(time.time() - t0)
                ok &= not missing
    except StopIteration:
        pass
    finally:
        sh(["git", "-C", REPO, "worktree", "remove", "--force", wt])
        shutil.rmtree(wt, ignore_errors=True)
    if a.phase == "wt":
        res["valid_seeded_change"] = bool(ok)
        print(json.dumps(res, indent=1))
        return 0 if ok else 1
    # ---- 2. the checks, against /repo itself
    man = json.load(open(os.path.join(VERIF, "MANIFEST.json")))
    cmds = {c["property_id"]: c["quick_cmd" if a.tier == "quick" else "thorough_cmd"] for c in man["checks"]}
    rc, o, e = sh(["git", "-C", REPO, "apply", patch])
    if rc != 0:
        res["steps"]["apply_to_repo_error"] = e[-300:]
        print(json.dumps(res, indent=1))
        return 2
    res["checks"] = {}
    try:
        for cid in a.checks.split(","):
            t0 = time.time()
            rc, o, e = sh(cmds[cid], cwd=VERIF, env=dict(os.environ, VERIF_SEED=a.seed), timeout=3600)
            viol = [l for l in o.splitlines() if l.startswith("VIOLATION")]
            msgs = [l[:300] for l in o.splitlines() if l.startswith("violation (")]
            res["checks"][cid] = {"exit": rc, "violation_lines": len(viol), "first": msgs[:3], "wall_s": round(time.time() - t0, 1),
                                  "harness_error": [l[:300] for l in o.splitlines() if l.startswith("HARNESS-ERROR")][:2]}
    finally:
        sh(["git", "-C", REPO, "apply", "-R", patch])
        sh(["git", "-C", REPO, "checkout", "--", "."])
        rc, out, _ = sh(["git", "-C", REPO, "status", "--porcelain", "--untracked-files=no"])
        res["repo_clean_after"] = not out.strip()
    res["valid_seeded_change"] = bool(ok)
    res["caught_by"] = [c for c, r in res.get("checks", {}).items() if r["exit"] == 1 and r["violation_lines"] > 0]
    print(json.dumps(res, indent=1))
    return 0 if ok else 1


if __name__ == "__main__":
    sys.exit(main())
