"""Small helpers shared by the check scripts."""


def code_name(spec):
    parts = [spec["family"]]
    for k in ("mu", "delta", "extended", "n", "k", "r", "m", "g", "N", "information_set"):
        if k in spec:
            v = spec[k]
            parts.append(f"{k}={'custom' if isinstance(v, list) else v}")
    return "(" + ",".join(parts) + ")"
