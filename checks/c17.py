#!/venv/bin/python
"""C17 — pipeline models run their stages in declared order, independent of thread timing.

Engine E1 `schedsim`: the real pipeline models are driven with recording stub stages; the
thread pool of ParallelModel is replaced by the simulated executor, whose every start /
finish / yield decision comes from the case.  Oracle: a list model over the recorded trace.
"""

from __future__ import annotations

import os
import sys

sys.path.insert(0, os.path.dirname(os.path.dirname(os.path.abspath(__file__))))

import time
from collections import Counter

import torch

from sim import core, schedsim
from sim.core import EventLog, RunResult, Violation
from sim.shrink import list_ddmin

import kaira.models.generic.parallel as kparallel
from kaira.channels import BaseChannel
from kaira.constraints import BaseConstraint
from kaira.models.base import BaseModel, ConfigurableModel
from kaira.models.channel_code import ChannelCodeModel
from kaira.models.deepjscc import DeepJSCCModel
from kaira.models.feedback_channel import FeedbackChannelModel
from kaira.models.generic.branching import BranchingModel
from kaira.models.generic.parallel import ParallelModel
from kaira.models.generic.sequential import SequentialModel
from kaira.models.multiple_access_channel import MultipleAccessChannelModel
from kaira.models.wyner_ziv import WynerZivModel
from kaira.modulations import BaseDemodulator, BaseModulator

PROPERTY = "C17"
ENGINE = "schedsim"
LEVEL = "exploration"
TIERS = {
    "quick": {"runs": 24000, "budget_s": 240, "chunk": 500},
    "thorough": {"runs": 2000000, "budget_s": 3000, "chunk": 4000},
}
RULE = (
    "one case = (model kind, stage/branch names, worker count, construction + add/remove history, forwards with args/kwargs, "
    "explicit scheduler decision list); generated from run_seed=H(C17,VERIF_SEED,index). Distinct = hash of (kind, config, history shape, "
    "canonical schedule actually taken [start/finish/yield sequence]). Non-trivial = >=2 stages/branches and, for the parallel model, "
    "the yield order differs from submission order or a branch fails or the history contains an add/remove before a forward."
)
ASSUMPTIONS = [
    "the simulated executor is a faithful nondeterministic model of ThreadPoolExecutor/as_completed (FIFO start, <=max_workers in flight, arbitrary finish order, arbitrary order over already-finished futures)",
    "branch bodies are atomic (no pre-emption inside a stage); stages are recording stubs",
    "overlapping calls on one object are produced only in the form 'the nested call runs to completion while the outer one waits' (a subset of what real threads can do)",
    "timeouts and durations are scheduler data (virtual clock), not real time",
    "CPython Future semantics; torch int64 arithmetic is exact",
]
SIMULATED_TIME_NOTE = (
    "the unchanged tree has no timer on this path (clock.reads_by_code_under_test stays 0); the simulation still owns the clock: time.time/"
    "monotonic/perf_counter/sleep are virtual while the simulated pool is installed and every ParallelModel branch takes the virtual duration "
    "its case gives it. probes.virtual_seconds_x1000 is the simulated time covered by the batch in milliseconds; logical time is events_total"
)
COMPONENTS_REAL = [
    "SequentialModel", "ConfigurableModel", "ParallelModel", "BranchingModel", "DeepJSCCModel", "ChannelCodeModel",
    "FeedbackChannelModel", "MultipleAccessChannelModel", "WynerZivModel",
]
COMPONENTS_STUB = ["pipeline stages (recording stubs)", "thread pool (simulated executor, seeded scheduler)", "clock (virtual)", "aggregator (recorder)"]

PRIMES = [2, 3, 5, 7, 11, 13, 17, 19, 23, 29, 31, 37, 41, 43, 47, 53]


class StubFailure(Exception):
    pass


# ----------------------------------------------------------------------------- stubs


class _RecMixin:
    def _setup(self, name, trace, mode="tuple", a=1, b=0, fail=False, delay=0.0):
        self.sname, self.trace, self.mode, self.a, self.b, self.fail, self.delay = name, trace, mode, a, b, fail, delay

    def _do(self, x, args, kwargs):
        self.trace.append((self.sname, x, args, dict(kwargs)))
        if getattr(self, "dur", 0):
            schedsim.advance(self.dur)  # this stage takes that long on the simulation's clock
        if self.delay:
            time.sleep(self.delay)  # only used in the real-thread fallback (DESIGN §3.6)
        if self.fail:
            raise StubFailure(self.sname)
        if self.mode == "tuple":
            return (self.sname, x)
        if self.mode == "tuple2":  # stages that take two data inputs (decoder with side info, feedback generator)
            return (self.sname, x, args[0] if args else None)
        if self.mode == "identity":  # returns the very tensor object it was given
            return x
        if self.mode == "buffer":  # returns a stored tensor (the same object on every call), e.g. a pilot sequence
            return self.buf
        return self.a * x + self.b


class RecModel(_RecMixin, BaseModel):
    def __init__(self, *a, **k):
        super().__init__()
        self._setup(*a, **k)

    def forward(self, x=None, *args, **kwargs):
        return self._do(x, args, kwargs)


class RecCallable(_RecMixin):
    """A recording stage that is a plain Python callable, not an nn.Module."""

    def __init__(self, *a, **k):
        self._setup(*a, **k)

    def __call__(self, x=None, *args, **kwargs):
        return self._do(x, args, kwargs)


class RecChannel(_RecMixin, BaseChannel):
    def __init__(self, *a, **k):
        super().__init__()
        self._setup(*a, **k)

    def forward(self, x, *args, **kwargs):
        return self._do(x, args, kwargs)


class RecConstraint(_RecMixin, BaseConstraint):
    def __init__(self, *a, **k):
        super().__init__()
        self._setup(*a, **k)

    def forward(self, x, *args, **kwargs):
        return self._do(x, args, kwargs)


class RecModulator(_RecMixin, BaseModulator):
    def __init__(self, *a, **k):
        super().__init__()
        self._setup(*a, **k)

    def forward(self, x, *args, **kwargs):
        return self._do(x, args, kwargs)


class RecDemodulator(_RecMixin, BaseDemodulator):
    def __init__(self, *a, **k):
        super().__init__()
        self._setup(*a, **k)

    def forward(self, y, *args, **kwargs):
        return self._do(y, args, kwargs)


def teq(a, b) -> bool:
    """Structural equality that understands tensors."""
    if isinstance(a, torch.Tensor) or isinstance(b, torch.Tensor):
        return isinstance(a, torch.Tensor) and isinstance(b, torch.Tensor) and a.shape == b.shape and bool(torch.equal(a, b))
    if isinstance(a, (list, tuple)) and isinstance(b, (list, tuple)):
        return type(a) is type(b) and len(a) == len(b) and all(teq(x, y) for x, y in zip(a, b))
    if isinstance(a, dict) and isinstance(b, dict):
        return a.keys() == b.keys() and all(teq(a[k], b[k]) for k in a)
    return a == b


# ----------------------------------------------------------------------------- generation


def _gen_call(rng, n_dec=40):
    nargs = rng.choice([0, 0, 1, 2])
    nkw = rng.choice([0, 0, 1, 2])
    return {
        "input": rng.randrange(1, 1000),
        "args": [rng.randrange(100) for _ in range(nargs)],
        "kwargs": {f"k{j}": rng.randrange(100) for j in range(nkw)},
        "decisions": [rng.randrange(1 << 16) for _ in range(n_dec)],
    }


def gen_case(run_seed: int, index: int, tier: str) -> dict:
    rng = core.rng_for(run_seed)
    kind = rng.choices(
        ["parallel", "sequential", "configurable", "deepjscc", "channelcode", "branching", "feedback", "mac", "wynerziv", "nested"],
        weights=[46, 8, 8, 3, 3, 12, 8, 8, 4, 7],
    )[0]
    case = {"kind": kind, "ops": []}
    if kind == "parallel":
        n = rng.choice([1, 2, 2, 3, 3, 3, 4, 4, 5, 5])
        names = [f"b{i}" for i in range(n)]
        rng.shuffle(names)  # declared order is not alphabetical order
        case["branches"] = names
        case["max_workers"] = rng.choice([None, None] + list(range(1, n + 1)) + [n + 1, n + 3, 32])
        case["plain"] = [nm for nm in names if rng.random() < 0.3]  # branches that are plain callables, not nn.Modules
        case["aggregator"] = rng.random() < 0.6
        case["ctor"] = rng.choice(["steps", "add", "add", "branches"])
        case["fail"] = [nm for nm in names if rng.random() < 0.08] if rng.random() < 0.3 else []
        # how long each branch takes on the simulation's clock (seconds); nothing in the property may depend on it
        case["durations"] = {nm: rng.choice([0, 0.004, 0.02, 0.05, 0.3, 1.5]) for nm in names} if rng.random() < 0.5 else {}
        extra = n
        for _ in range(rng.choice([0, 0, 0, 1, 2, 4])):
            if rng.random() < 0.5:
                case["ops"].append(["add", f"b{extra}"])
                extra += 1
            else:
                case["ops"].append(["remove", rng.randrange(0, 6)])
        for _ in range(rng.choice([1, 1, 2, 3])):
            case["ops"].append(["forward", _gen_call(rng)])
            if rng.random() < 0.3:
                if rng.random() < 0.5:
                    case["ops"].append(["add", f"b{extra}"])
                    extra += 1
                else:
                    case["ops"].append(["remove", rng.randrange(0, 6)])
        if case["ops"][-1][0] != "forward":
            case["ops"].append(["forward", _gen_call(rng)])
    elif kind in ("sequential", "configurable"):
        n = rng.randrange(0, 7)
        # a stage object may sit at several positions of one pipeline (the same name = the same object)
        reuse = rng.random() < 0.35
        case["plain_stages"] = rng.random() < 0.3
        case["stages"] = [f"s{rng.randrange(3)}" if reuse else f"s{i}" for i in range(n)]
        extra = n
        for _ in range(rng.choice([0, 1, 2, 4, 8])):
            if rng.random() < 0.55:
                case["ops"].append(["add", f"s{rng.randrange(3)}" if reuse else f"s{extra}"])
                extra += 1
            else:
                case["ops"].append(["remove", rng.randrange(0, 7)])
            if rng.random() < 0.3:
                case["ops"].append(["forward", _gen_call(rng, 0)])
        case["ops"].append(["forward", _gen_call(rng, 0)])
        if rng.random() < 0.3:
            # some stages are pipelines themselves (a SequentialModel nested in the pipeline); the inner pipeline may grow later
            case["composite"] = {}
            for j in range(rng.choice([1, 1, 2])):
                nm = f"q{j}"
                case["composite"][nm] = [f"{nm}{c}" for c in "abc"[: rng.choice([1, 2, 2, 3])]]
                pos = rng.randrange(len(case["stages"]) + 1)
                case["stages"].insert(pos, nm)
                if rng.random() < 0.5:
                    case["ops"].insert(rng.randrange(len(case["ops"])), ["inner_add", nm, f"{nm}x"])
        if kind == "sequential" and case["stages"] and rng.random() < 0.3:
            # the caller keeps the list it handed to the constructor: it goes on editing it, or builds a second pipeline from it
            # and edits that one; the pipeline under test was declared by the constructor call and must not follow
            case["caller_list"] = rng.choice(["twin_add", "twin_add", "twin_remove", "append", "pop"])
    elif kind in ("deepjscc", "channelcode"):
        nfix = 4 if kind == "deepjscc" else 6
        extra = 0
        for _ in range(rng.choice([1, 2])):
            case["ops"].append(["forward", _gen_call(rng, 0)])
            if rng.random() < 0.35:  # they inherit add_step / remove_step from the configurable base
                if rng.random() < 0.6:
                    case["ops"].append(["add", f"x{extra}"])
                    extra += 1
                else:
                    case["ops"].append(["remove", rng.randrange(0, nfix + extra + 1)])
                case["ops"].append(["forward", _gen_call(rng, 0)])
    elif kind == "branching":
        n = rng.randrange(1, 6)
        case["branches"] = [f"c{i}" for i in range(n)]
        case["default"] = rng.random() < 0.7
        case["binary_ctor"] = rng.random() < 0.15
        nb = n
        for _ in range(rng.choice([0, 0, 1, 2, 4])):
            r = rng.random()
            if r < 0.4:
                case["ops"].append(["add", f"c{nb}"])
                nb += 1
            elif r < 0.7:
                case["ops"].append(["remove", rng.randrange(0, 6)])
            elif r < 0.85:
                case["ops"].append(["readd", rng.randrange(0, 6)])
            else:
                case["ops"].append(["set_default", f"d{nb}"])
                nb += 1
        for _ in range(rng.choice([1, 2, 3, 4])):
            call = _gen_call(rng, 0)
            call["args"] = []  # extra arguments by keyword only (DESIGN §3.3)
            # truth table of the conditions for this input, for every branch name that may exist
            call["truth"] = {f"c{i}": (rng.random() < rng.choice([0.15, 0.5, 0.85])) for i in range(nb + 1)}
            call["as_tensor"] = {f"c{i}": rng.random() < 0.4 for i in range(nb + 1)}
            call["return_branch"] = rng.random() < 0.5
            call["guarded"] = rng.random() < 0.3  # conditions form an if/elif chain: later ones are invalid for inputs an earlier one claims
            case["ops"].append(["forward", call])
    elif kind == "feedback":
        case["max_iterations"] = rng.choice([0, 1, 1, 2, 3, 4, 5, 5, 6, 8, 12])
        # a third of the feedback runs carry tensors through deterministic stages, so that every round produces the same feedback
        # (a quantised ACK/NACK, a noiseless link): the configured number of rounds is performed all the same
        case["fb_tensor"] = rng.random() < 0.35
        for _ in range(rng.choice([1, 2])):
            case["ops"].append(["forward", _gen_call(rng, 0)])
    elif kind == "mac":
        n = rng.choice([1, 2, 2, 3, 3, 4, 4, 5, 6, 8])
        case["users"] = n
        case["enc_mode"] = rng.choice(["shared", "list", "list", "list_partial", "alias_identity", "alias_buffer"]) if n >= 3 else rng.choice(["shared", "list", "list", "alias_identity"])
        case["dec_mode"] = rng.choice(["joint", "joint_list", "list"])
        case["shape"] = rng.choice([[2, 3], [1, 4], [3, 2], [5, 1], [1, 1], [4, 6]])
        for _ in range(rng.choice([1, 2])):
            call = _gen_call(rng, 0)
            call["inputs"] = [[rng.randrange(-50, 50) for _ in range(case["shape"][0] * case["shape"][1])] for _ in range(n)]
            case["ops"].append(["forward", call])
        if n >= 2 and not case["enc_mode"].startswith("alias") and rng.random() < 0.3:
            # one user's encoder is replaced in the module list (a fine-tuned copy) before a forward
            case["ops"].insert(rng.randrange(len(case["ops"])), ["replace_encoder", rng.randrange(n)])
    elif kind == "nested":
        # one ParallelModel object shared by several branches of an outer ParallelModel (weight sharing): a single outer
        # forward makes several forwards of the shared object overlap in time
        ni = rng.choice([1, 2, 2, 3, 3, 4])
        case["inner"] = [f"i{j}" for j in range(ni)]
        rng.shuffle(case["inner"])
        case["inner_workers"] = rng.choice([None, 1, 2, ni, ni + 2])
        case["inner_aggregator"] = rng.random() < 0.5
        no = rng.choice([2, 2, 3, 3, 4])
        case["outer"] = [f"o{j}" for j in range(no)]
        case["outer_workers"] = rng.choice([None, None, 1, 2, no, no + 1])
        case["outer_aggregator"] = rng.random() < 0.4
        case["direct"] = rng.choice(case["outer"]) if rng.random() < 0.3 else None  # this branch IS the shared object (no wrapper)
        case["private"] = [nm for nm in case["outer"] if nm != case["direct"] and rng.random() < 0.2]  # branches with their own inner copy
        for _ in range(rng.choice([1, 1, 2])):
            call = _gen_call(rng, 160)
            call["args"], call["kwargs"] = [], {}
            case["ops"].append(["forward", call])
    elif kind == "wynerziv":
        case["quantizer"] = rng.random() < 0.5
        case["syndrome"] = rng.random() < 0.5
        case["constraint"] = rng.random() < 0.5
        case["correlation"] = rng.random() < 0.7
        for _ in range(rng.choice([1, 2])):
            call = _gen_call(rng, 0)
            call["side_info"] = rng.random() < 0.5 or not case["correlation"]
            case["ops"].append(["forward", call])
    return case


# ----------------------------------------------------------------------------- execution + oracles


class Ctx:
    def __init__(self, case):
        self.case = case
        self.log = EventLog()
        self.res = RunResult()
        self.trace = []
        self.fwd_no = 0

    def violate(self, kind, msg, **extra):
        sig = {"component": self.case["kind"], "kind": kind}
        sig.update(extra)
        self.res.violations.append(Violation(sig, f"C17/{self.case['kind']}: {msg}"))

    def take_trace(self):
        t = list(self.trace)
        self.trace.clear()
        for name, x, args, kwargs in t:
            self.log.add("stage", {"name": name, "in": x, "args": list(args), "kwargs": kwargs})
        return t


def check_chain(ctx: Ctx, trace, expected_names, x0, args, kwargs, result, what="pipeline"):
    """Sequential family: declared order, exactly once each, (prev output, *args, **kwargs) in, last output out."""
    got_names = [t[0] for t in trace]
    if Counter(got_names) != Counter(expected_names):
        ctx.violate("count", f"{what}: stages ran {got_names}, declared {expected_names} (each exactly once)")
        return
    if got_names != expected_names:
        ctx.violate("order", f"{what}: stages ran in order {got_names}, declared order {expected_names}")
        return
    cur = x0
    for (name, x, a, k) in trace:
        if not teq(x, cur):
            ctx.violate("dataflow", f"{what}: stage {name} received {x!r}, expected the previous stage's output {cur!r}")
            return
        if list(a) != list(args) or k != kwargs:
            ctx.violate("args", f"{what}: stage {name} received extra arguments {a!r} {k!r}, expected {tuple(args)!r} {kwargs!r}")
            return
        cur = (name, x)
    if not teq(result, cur):
        ctx.violate("result", f"{what}: returned {result!r}, expected the last stage's output {cur!r}")


def run_sequential_family(ctx: Ctx):
    case = ctx.case
    kind = case["kind"]
    tr = ctx.trace
    objs = {}

    composite = {k: list(v) for k, v in (case.get("composite") or {}).items()}

    def expand(nms):
        out = []
        for nm in nms:
            out.extend(composite[nm] if nm in composite else [nm])
        return out

    def stage(name):
        if name not in objs and name in composite:
            objs[name] = SequentialModel([RecModel(inner, tr) for inner in composite[name]])
            ctx.res.probes["sequential.nested_pipeline_stage"] += 1
        elif name not in objs:
            objs[name] = RecCallable(name, tr) if case.get("plain_stages") and name.startswith("s") and int(name[1:]) % 2 == 1 else RecModel(name, tr)
        else:
            ctx.res.probes["sequential.stage_object_reused"] += 1
        return objs[name]

    if kind == "sequential":
        names = list(case["stages"])
        handed = [stage(n) for n in names]
        model = SequentialModel(handed) if names else SequentialModel()
        cl = case.get("caller_list")
        if cl and names:
            if cl == "twin_add":
                SequentialModel(handed).add_step(RecModel("zz", tr))
            elif cl == "twin_remove":
                SequentialModel(handed).remove_step(0)
            elif cl == "append":
                handed.append(RecModel("zz", tr))
            elif cl == "pop":
                handed.pop()
            ctx.res.faults["history.callers_list_edited_after_construction"] += 1
            ctx.log.add("op.caller_list", cl)
    elif kind == "configurable":
        names = []
        model = ConfigurableModel()
        for n in case["stages"]:
            model.add_step(stage(n))
            names.append(n)
    elif kind == "deepjscc":
        names = ["encoder", "constraint", "channel", "decoder"]
        model = DeepJSCCModel(encoder=RecModel("encoder", tr), constraint=RecConstraint("constraint", tr), channel=RecChannel("channel", tr), decoder=RecModel("decoder", tr))
    else:
        names = ["encoder", "modulator", "constraint", "channel", "demodulator", "decoder"]
        model = ChannelCodeModel(
            encoder=RecModel("encoder", tr), constraint=RecConstraint("constraint", tr), modulator=RecModulator("modulator", tr),
            channel=RecChannel("channel", tr), demodulator=RecDemodulator("demodulator", tr), decoder=RecModel("decoder", tr),
        )
    hist_before_forward = False
    for op in case["ops"]:
        if op[0] == "add":
            model.add_step(stage(op[1]))
            names.append(op[1])
            hist_before_forward = True
            ctx.log.add("op.add", op[1])
        elif op[0] == "remove":
            if op[1] < len(names):
                model.remove_step(op[1])
                names.pop(op[1])
                hist_before_forward = True
                ctx.res.faults["history.remove"] += 1
                ctx.log.add("op.remove", op[1])
        elif op[0] == "inner_add":
            if op[1] in composite and op[1] in objs:
                objs[op[1]].add_step(RecModel(op[2], tr))  # the nested pipeline grows after it was placed in the outer one
                composite[op[1]].append(op[2])
                hist_before_forward = True
                ctx.res.faults["history.nested_pipeline_grows"] += 1
                ctx.log.add("op.inner_add", [op[1], op[2]])
        else:
            call = op[1]
            x0 = ("in", call["input"])
            out = model(x0, *call["args"], **call["kwargs"])
            ctx.log.add("op.forward", {"in": x0, "out": out})
            check_chain(ctx, ctx.take_trace(), expand(names), x0, call["args"], call["kwargs"], out, kind)
            if len(names) >= 2:
                ctx.res.nontrivial.append(core.short_hash([kind, names, hist_before_forward, len(call["args"]), sorted(call["kwargs"])]))
            ctx.res.probes[f"{kind}.forward"] += 1
            if call["args"] or call["kwargs"]:
                ctx.res.probes["forward.with_extra_args"] += 1
            if not names:
                ctx.res.probes["sequential.zero_stages"] += 1


class AggRecorder:
    def __init__(self):
        self.calls = []

    def __call__(self, results):
        self.calls.append(results)
        return ("agg", tuple(results) if isinstance(results, (list, tuple)) else results)


def run_parallel(ctx: Ctx):
    case = ctx.case
    tr = ctx.trace
    fail = set(case.get("fail", []))
    fallback = bool(case.get("fallback_real_threads"))
    agg = AggRecorder() if case["aggregator"] else None

    plain = set(case.get("plain", []))

    durations = case.get("durations") or {}

    def mk(name, rank=0):
        cls = RecCallable if name in plain else RecModel
        obj = cls(name, tr, fail=name in fail, delay=(0.002 * rank if fallback else 0.0))
        obj.dur = durations.get(name, 0)
        return obj

    names = list(case["branches"])
    ranks = {nm: r for r, nm in enumerate(case.get("fallback_order", names))}
    ctor = case["ctor"]
    auto_names = False
    if ctor == "steps":
        model = ParallelModel(max_workers=case["max_workers"], steps=[(n, mk(n, ranks.get(n, 0))) for n in names], aggregator=agg)
    elif ctor == "add":
        model = ParallelModel(max_workers=case["max_workers"], aggregator=agg)
        for n in names:
            model.add_step(mk(n, ranks.get(n, 0)), n)
    else:
        model = ParallelModel(max_workers=case["max_workers"], branches=[mk(n, ranks.get(n, 0)) for n in names], aggregator=agg)
        auto_names = True  # keys are an API detail, never asserted
    hist = False
    for op in case["ops"]:
        if op[0] == "add":
            model.add_step(mk(op[1]), op[1])
            names.append(op[1])
            hist = True
            ctx.log.add("op.add", op[1])
        elif op[0] == "remove":
            if op[1] < len(names):
                model.remove_step(op[1])
                names.pop(op[1])
                hist = True
                ctx.res.faults["history.remove"] += 1
                ctx.log.add("op.remove", op[1])
        else:
            call = op[1]
            x0 = ("in", call["input"])
            sim = schedsim.Sim(schedsim.Decider(call["decisions"]), ctx.log)
            raised = None
            out = None
            if fallback:
                try:
                    out = model(x0, *call["args"], **call["kwargs"])
                except StubFailure as e:
                    raised = e
            else:
                with schedsim.installed(sim, [kparallel]):
                    try:
                        out = model(x0, *call["args"], **call["kwargs"])
                    except StubFailure as e:
                        raised = e
            trace = ctx.take_trace()
            ctx.log.add("op.forward", {"in": x0, "out": out if raised is None else "raised"})
            ctx.res.probes["parallel.forward"] += 1
            ctx.res.probes["seam.submit"] += sim.submits
            if names and sim.submits == 0 and not fallback:
                ctx.res.probes["seam.missed"] += 1
            # ---- reach / schedule measures
            n = len(names)
            yo = sim.yield_orders[0] if sim.yield_orders else []
            if sim.prefinished:
                ctx.res.probes[f"as_completed.prefinished={min(sim.prefinished[0], 5)}"] += 1
            reordered = yo != sorted(yo)
            if reordered:
                ctx.res.faults["sched.yield_out_of_submission_order"] += 1
            if sim.finish_order != sorted(sim.finish_order):
                ctx.res.faults["sched.finish_out_of_submission_order"] += 1
            if any(nm in fail for nm in names):
                ctx.res.faults["branch.raise"] += 1
            if sim.now > 0:
                ctx.res.faults["clock.branches_with_unequal_durations"] += 1 if len(set(durations.get(nm, 0) for nm in names)) > 1 else 0
                ctx.res.probes["virtual_seconds_x1000"] += int(sim.now * 1000)
            if sim.clock_reads:
                ctx.res.probes["clock.reads_by_code_under_test"] += sim.clock_reads
            if sim.timeouts_fired:
                ctx.res.faults["sched.timeout_fired"] += sim.timeouts_fired
            sched_canon = [e[1:] for e in ctx.log.events if e[1].startswith("sched.")]
            ctx.res.extra_sets.setdefault("schedules", []).append(core.short_hash([n, case["max_workers"], sched_canon]))
            if n >= 2 and yo:
                ctx.res.extra_sets.setdefault(f"yield_perms_n{n}", []).append(",".join(map(str, yo)))
            if n >= 2 and (reordered or any(nm in fail for nm in names) or hist):
                ctx.res.nontrivial.append(core.short_hash(["parallel", names, case["max_workers"], bool(agg), sorted(fail), hist, yo, sim.finish_order]))
            # ---- oracle
            # every branch ran exactly once with (input, *args, **kwargs)
            ran = Counter(t[0] for t in trace)
            if raised is None or True:
                if raised is None and ran != Counter(names):
                    ctx.violate("count", f"branches ran {dict(ran)}, declared {names} (each exactly once)")
                    continue
                if any(c > 1 for c in ran.values()) or any(nm not in names for nm in ran):
                    ctx.violate("count", f"branches ran {dict(ran)}, declared {names} (each at most once, none foreign)")
                    continue
            bad = [t for t in trace if not teq(t[1], x0) or list(t[2]) != list(call["args"]) or t[3] != call["kwargs"]]
            if bad:
                ctx.violate("args", f"branch {bad[0][0]} received ({bad[0][1]!r}, {bad[0][2]!r}, {bad[0][3]!r}), expected ({x0!r}, {tuple(call['args'])!r}, {call['kwargs']!r})")
                continue
            if raised is not None:
                ctx.res.probes["parallel.forward_raised"] += 1
                continue  # narrow relaxation: an injected branch failure may surface as an exception
            expected = {nm: (nm, x0) for nm in names if nm not in fail}
            if agg is not None:
                if n == 0:
                    continue
                if len(agg.calls) != 1:
                    ctx.violate("aggregator_calls", f"aggregator called {len(agg.calls)} times in one forward")
                    agg.calls.clear()
                    continue
                got = agg.calls.pop()
                if not isinstance(got, (list, tuple)):
                    ctx.violate("aggregator_input", f"aggregator received {type(got).__name__}, expected a list of branch results")
                    continue
                exp_list = [expected[nm] for nm in names if nm in expected]
                exp_set = set(exp_list)
                kept = [g for g in got if isinstance(g, tuple) and g in exp_set]
                if not fail and len(got) != n:
                    ctx.violate("aggregator_len", f"aggregator received {len(got)} results for {n} branches")
                    continue
                if kept != exp_list:
                    ctx.violate("aggregator_order", f"aggregator received {kept!r}; declared branch order is {names} so it must receive {exp_list!r} (yield order {yo})", aggregator=True)
                    continue
                if not teq(out, ("agg", tuple(got))):
                    ctx.violate("result", "model did not return the aggregator's return value")
            else:
                if n == 0:
                    if out != {}:
                        ctx.violate("result", f"model without branches returned {out!r}")
                    continue
                if not isinstance(out, dict):
                    ctx.violate("result", f"model without aggregator returned {type(out).__name__}, expected a dict of branch results")
                    continue
                if auto_names and not hist:
                    vals = list(out.values())
                    if len(vals) != n or Counter(v for v in vals if isinstance(v, tuple)) != Counter(expected.values()):
                        ctx.violate("result_values", f"branch results {vals!r} are not the declared branches' outputs {list(expected.values())!r}")
                    continue
                if auto_names:
                    continue
                for nm in names:
                    if nm in expected:
                        if nm not in out:
                            ctx.violate("missing_name", f"no result under branch name {nm!r}; got keys {list(out)}")
                            break
                        if not teq(out[nm], expected[nm]):
                            ctx.violate("foreign_value", f"result under {nm!r} is {out[nm]!r}, expected that branch's own output {expected[nm]!r}")
                            break
                else:
                    for k, v in out.items():
                        if k not in names:
                            ctx.violate("foreign_name", f"result dict has key {k!r} which is not a declared branch {names}")
                            break


def _pure_agg(results):
    return ("agg", tuple(results))


def run_nested(ctx: Ctx):
    case = ctx.case
    tr = ctx.trace

    def mk_inner():
        return ParallelModel(max_workers=case["inner_workers"], steps=[(nm, RecModel(nm, tr)) for nm in case["inner"]], aggregator=_pure_agg if case["inner_aggregator"] else None)

    shared = mk_inner()
    steps = []
    for nm in case["outer"]:
        if nm == case.get("direct"):
            steps.append((nm, shared))
        else:
            steps.append((nm, SequentialModel([RecModel("t" + nm, tr), mk_inner() if nm in case.get("private", []) else shared])))
    outer = ParallelModel(max_workers=case["outer_workers"], steps=steps, aggregator=_pure_agg if case["outer_aggregator"] else None)

    def inner_expected(v):
        vals = [(nm, v) for nm in case["inner"]]
        return _pure_agg(vals) if case["inner_aggregator"] else dict(zip(case["inner"], vals))

    for op in case["ops"]:
        call = op[1]
        x0 = ("in", call["input"])
        sim = schedsim.Sim(schedsim.Decider(call["decisions"]), ctx.log)
        with schedsim.installed(sim, [kparallel]):
            out = outer(x0)
        trace = ctx.take_trace()
        ctx.log.add("op.forward", {"in": x0, "out": out})
        ctx.res.probes["nested.forward"] += 1
        ctx.res.probes["seam.submit"] += sim.submits
        n_shared = sum(1 for nm in case["outer"] if nm not in case.get("private", []))
        if sim.nested_starts:
            ctx.res.faults["sched.task_started_inside_another_tasks_wait"] += sim.nested_starts
        # did two forwards of the shared object overlap?  (an outer task started inside another outer task's wait)
        starts = [e for e in ctx.log.events if e[1] in ("sched.start", "sched.finish")]
        if sim.nested_starts and n_shared >= 2:
            ctx.res.faults["sched.overlapping_forwards_of_one_object"] += 1
            ctx.res.nontrivial.append(core.short_hash(["nested", case["inner"], case["outer"], case["inner_workers"], case["outer_workers"], [e[1:] for e in starts]]))
        ctx.res.extra_sets.setdefault("schedules", []).append(core.short_hash(["nested", len(case["inner"]), len(case["outer"]), [e[1:] for e in starts]]))
        # ---- oracle
        inputs = {nm: (x0 if nm == case.get("direct") else ("t" + nm, x0)) for nm in case["outer"]}
        exp_trace = Counter()
        for nm in case["outer"]:
            if nm != case.get("direct"):
                exp_trace[("t" + nm, repr(x0))] += 1
            for b in case["inner"]:
                exp_trace[(b, repr(inputs[nm]))] += 1
        got_trace = Counter((t[0], repr(t[1])) for t in trace)
        if got_trace != exp_trace:
            diff = (got_trace - exp_trace) + (exp_trace - got_trace)
            ctx.violate("count", f"stages of the nested model ran {sum(got_trace.values())} times, expected {sum(exp_trace.values())}; differing entries {dict(diff)}")
            continue
        exp_vals = [inner_expected(inputs[nm]) for nm in case["outer"]]
        expected = _pure_agg(exp_vals) if case["outer_aggregator"] else dict(zip(case["outer"], exp_vals))
        if not teq(out, expected):
            if isinstance(out, dict) and isinstance(expected, dict) and list(out) == list(expected):
                bad = [nm for nm in expected if not teq(out[nm], expected[nm])]
                ctx.violate("foreign_value", f"result under {bad[0]!r} is {out[bad[0]]!r}, expected that branch's own output {expected[bad[0]]!r} (a shared ParallelModel ran in {n_shared} branches; {sim.nested_starts} task(s) started while another waited)")
            else:
                ctx.violate("result", f"nested model returned {out!r}, expected {expected!r}")


def run_branching(ctx: Ctx):
    case = ctx.case
    tr = ctx.trace
    truth_now = {}
    as_tensor_now = {}

    guarded_now = [False]
    order = []  # registration order (list model)

    def mk_cond(name):
        def cond(x):
            if guarded_now[0]:
                # an if/elif guard chain: this condition is only valid for inputs that no earlier branch claims
                for other in order:
                    if other == name:
                        break
                    if truth_now.get(other, False):
                        raise IndexError(f"condition {name} evaluated on an input that the earlier branch {other} claims")
            v = truth_now.get(name, False)
            return torch.tensor(v) if as_tensor_now.get(name) else v
        return cond

    removed = []
    default = None
    if case.get("binary_ctor"):
        model = BranchingModel(condition=mk_cond("true_branch"), true_branch=RecModel("true_branch", tr), false_branch=RecModel("default0", tr))
        order.append("true_branch")
        default = "default0"
    else:
        model = BranchingModel()
    for nm in case["branches"]:
        model.add_branch(nm, mk_cond(nm), RecModel(nm, tr))
        order.append(nm)
    if case["default"] and default is None:
        model.set_default_branch(RecModel("default0", tr))
        default = "default0"
    hist = False
    for op in case["ops"]:
        if op[0] == "add":
            model.add_branch(op[1], mk_cond(op[1]), RecModel(op[1], tr))
            order.append(op[1])
            hist = True
        elif op[0] == "remove":
            if op[1] < len(order):
                nm = order.pop(op[1])
                model.remove_branch(nm)
                removed.append(nm)
                hist = True
                ctx.res.faults["history.remove"] += 1
        elif op[0] == "readd":
            if op[1] < len(removed):
                nm = removed.pop(op[1])
                model.add_branch(nm, mk_cond(nm), RecModel(nm, tr))
                order.append(nm)
                hist = True
                ctx.res.faults["history.readd"] += 1
        elif op[0] == "set_default":
            model.set_default_branch(RecModel(op[1], tr))
            default = op[1]
            hist = True
        else:
            call = op[1]
            truth_now.clear()
            truth_now.update(call["truth"])
            if case.get("binary_ctor"):
                truth_now["true_branch"] = call["truth"].get("c0", False)
            as_tensor_now.clear()
            as_tensor_now.update(call["as_tensor"])
            guarded_now[0] = bool(call.get("guarded"))
            if guarded_now[0]:
                ctx.res.probes["branching.guard_chain_conditions"] += 1
            x0 = ("in", call["input"])
            expect = next((nm for nm in order if truth_now.get(nm, False)), None)
            expect_name = expect
            if expect is None:
                expect = default
                expect_name = "default" if default is not None else None
            err = None
            out = None
            try:
                out = model(x0, return_branch=call["return_branch"], **call["kwargs"])
            except (RuntimeError, IndexError) as e:
                err = e
            trace = ctx.take_trace()
            ctx.log.add("op.forward", {"in": x0, "out": out if err is None else "raised", "expect": expect})
            ctx.res.probes["branching.forward"] += 1
            ntrue = sum(1 for nm in order if truth_now.get(nm, False))
            if ntrue >= 2:
                ctx.res.probes["branching.overlapping_conditions"] += 1
            if len(order) >= 2:
                ctx.res.nontrivial.append(core.short_hash(["branching", order, default, [truth_now.get(nm, False) for nm in order], hist, call["return_branch"]]))
            if expect is None:
                if trace:
                    ctx.violate("ran_without_match", f"no condition holds and no default is set, yet {[t[0] for t in trace]} ran")
                ctx.res.probes["branching.no_match_no_default"] += 1
                continue
            if err is not None:
                ctx.violate("raised", f"branch {expect} should have run but the model raised {err!r}")
                continue
            if [t[0] for t in trace] != [expect]:
                ctx.violate("wrong_branch", f"branches that ran: {[t[0] for t in trace]}; registration order {order}, true conditions {[nm for nm in order if truth_now.get(nm)]}, default {default}; expected exactly [{expect}]")
                continue
            t = trace[0]
            if not teq(t[1], x0) or t[3] != call["kwargs"]:
                ctx.violate("args", f"branch {expect} received ({t[1]!r}, {t[3]!r}), expected ({x0!r}, {call['kwargs']!r})")
                continue
            exp_out = (expect, x0)
            if call["return_branch"]:
                if not (isinstance(out, tuple) and len(out) == 2 and teq(out[0], exp_out)):
                    ctx.violate("result", f"returned {out!r}, expected ({exp_out!r}, branch name)")
                elif out[1] != expect_name:
                    ctx.violate("branch_name", f"return_branch named {out[1]!r}, the branch that ran is {expect_name!r}")
            elif not teq(out, exp_out):
                ctx.violate("result", f"returned {out!r}, expected {exp_out!r}")


def run_feedback(ctx: Ctx):
    case = ctx.case
    tr = ctx.trace
    R = case["max_iterations"]
    model = FeedbackChannelModel(
        encoder=RecModel("encoder", tr), forward_channel=RecChannel("forward_channel", tr), decoder=RecModel("decoder", tr),
        feedback_generator=RecModel("feedback_generator", tr, mode="tuple2"), feedback_channel=RecChannel("feedback_channel", tr),
        feedback_processor=RecModel("feedback_processor", tr), max_iterations=R,
    )
    fbt = bool(case.get("fb_tensor"))
    if fbt:
        model = FeedbackChannelModel(
            encoder=RecModel("encoder", tr, mode="affine", a=3, b=5), forward_channel=RecChannel("forward_channel", tr, mode="affine", a=7, b=11),
            decoder=RecModel("decoder", tr, mode="affine", a=13, b=17), feedback_generator=RecModel("feedback_generator", tr, mode="affine", a=19, b=23),
            feedback_channel=RecChannel("feedback_channel", tr, mode="affine", a=1, b=0), feedback_processor=RecModel("feedback_processor", tr, mode="affine", a=29, b=31),
            max_iterations=R,
        )
    for op in case["ops"]:
        call = op[1]
        x0 = torch.tensor([call["input"], 1, -2], dtype=torch.int64) if fbt else ("in", call["input"])
        out = model(x0, *call["args"], **call["kwargs"])
        trace = ctx.take_trace()
        ctx.log.add("op.forward", {"in": x0, "rounds": R})
        ctx.res.probes["feedback.forward"] += 1
        if fbt:
            ctx.res.probes["feedback.tensor_valued_repeating_feedback"] += 1
            counts = Counter(t[0] for t in trace)
            want = {"encoder": R, "forward_channel": R, "decoder": R, "feedback_generator": R, "feedback_channel": R}
            bad = {st: counts[st] for st in want if counts[st] != want[st]}
            if bad:
                ctx.violate("round_count", f"stages ran {bad} times with bit-identical feedback in every round, configured rounds {R}", stage=sorted(bad)[0])
            elif not isinstance(out, dict):
                ctx.violate("result", f"returned {type(out).__name__}")
            elif len(out.get("iterations", [])) != R or len(out.get("feedback_history", [])) != R:
                ctx.violate("round_count", f"reported {len(out.get('iterations', []))} iterations / {len(out.get('feedback_history', []))} feedback entries, configured rounds {R}", stage="report")
            elif R >= 1 and not teq(out.get("final_output"), 13 * (7 * (3 * x0 + 5) + 11) + 17):
                ctx.violate("result", f"final_output {out.get('final_output')!r} is not the decoded value of the last round")
            if R >= 2:
                ctx.res.nontrivial.append(core.short_hash(["feedback.tensor", R, len(call["args"]), sorted(call["kwargs"])]))
            continue
        if R >= 2:
            ctx.res.nontrivial.append(core.short_hash(["feedback", R, len(call["args"]), sorted(call["kwargs"])]))
        counts = Counter(t[0] for t in trace)
        for st in ("encoder", "forward_channel", "decoder"):
            if counts[st] != R:
                ctx.violate("round_count", f"{st} ran {counts[st]} times, configured rounds {R}", stage=st)
                break
        else:
            if not isinstance(out, dict):
                ctx.violate("result", f"returned {type(out).__name__}")
                continue
            if len(out.get("iterations", [])) != R or len(out.get("feedback_history", [])) != R:
                ctx.violate("round_count", f"reported {len(out.get('iterations', []))} iterations / {len(out.get('feedback_history', []))} feedback entries, configured rounds {R}", stage="report")
                continue
            # per round: encoder -> forward_channel -> decoder, chained on the first positional argument
            main = [t for t in trace if t[0] in ("encoder", "forward_channel", "decoder")]
            ok = True
            last_dec = None
            for r in range(R):
                e, c, d = main[3 * r: 3 * r + 3]
                if [e[0], c[0], d[0]] != ["encoder", "forward_channel", "decoder"]:
                    ctx.violate("order", f"round {r}: stages ran as {[e[0], c[0], d[0]]}")
                    ok = False
                    break
                if not teq(e[1], x0) or not teq(c[1], ("encoder", x0)) or not teq(d[1], ("forward_channel", ("encoder", x0))):
                    ctx.violate("dataflow", f"round {r}: encoder/channel/decoder inputs {e[1]!r} / {c[1]!r} / {d[1]!r} do not chain from the input")
                    ok = False
                    break
                last_dec = ("decoder", d[1])
            if ok and R >= 1 and not teq(out.get("final_output"), last_dec):
                ctx.violate("result", f"final_output {out.get('final_output')!r} is not the last round's decoded value {last_dec!r}")


def run_mac(ctx: Ctx):
    case = ctx.case
    tr = ctx.trace
    n = case["users"]
    shape = case["shape"]

    def aff(name, j, cls=RecModel):
        return cls(name, tr, mode="affine", a=PRIMES[j % len(PRIMES)], b=PRIMES[(j + 5) % len(PRIMES)] * 7)

    enc_of_user = []
    alias = case["enc_mode"] in ("alias_identity", "alias_buffer")
    if alias:
        # all users' encoded signals are one and the same tensor object (identity encoder fed [x] * n, or a
        # shared encoder that returns a stored pilot buffer): an in-place superposition would corrupt it
        e = RecModel("enc", tr, mode="identity" if case["enc_mode"] == "alias_identity" else "buffer")
        encs = e
        enc_of_user = [e] * n
        ctx.res.probes["mac.aliased_encoder_outputs"] += 1
    elif case["enc_mode"] == "shared":
        e = aff("enc", 0)
        encs = e
        enc_of_user = [e] * n
    elif case["enc_mode"] == "list":
        encs = [aff(f"enc{i}", i) for i in range(n)]
        enc_of_user = list(encs)
    else:  # the first two users share one encoder object, the others have their own
        e = aff("enc0", 0)
        encs = [e, e] + [aff(f"enc{i}", i) for i in range(2, n)]
        enc_of_user = list(encs)
        ctx.res.probes["mac.partially_shared_encoders"] += 1
    if case["dec_mode"] == "joint":
        decs = aff("dec", 9)
        dec_list = [decs]
    elif case["dec_mode"] == "joint_list":
        decs = [aff("dec", 9)]
        dec_list = decs
    else:
        decs = [aff(f"dec{i}", 9 + i) for i in range(n)]
        dec_list = decs
    con = aff("constraint", 7, RecConstraint)
    ch = aff("channel", 8, RecChannel)
    model = MultipleAccessChannelModel(encoders=encs, decoders=decs, channel=ch, power_constraint=con, num_devices=n)
    for op in case["ops"]:
        if op[0] == "replace_encoder":
            j = op[1]
            if j < len(model.encoders):
                new_enc = aff(f"encR{j}", j + 3)
                model.encoders[j] = new_enc
                enc_of_user[j] = new_enc
                ctx.res.faults["history.encoder_entry_replaced"] += 1
                ctx.log.add("op.replace_encoder", j)
            continue
        call = op[1]
        xs = [torch.tensor(v, dtype=torch.int64).reshape(shape) for v in call["inputs"]]
        if alias:
            if case["enc_mode"] == "alias_identity":
                xs = [xs[0]] * n
                signal = xs[0].clone()
            else:
                enc_of_user[0].buf = torch.tensor(call["inputs"][0], dtype=torch.int64).reshape(shape)
                signal = enc_of_user[0].buf.clone()
        xs_before = [t.clone() for t in xs]
        out = model(xs, *call["args"], **call["kwargs"])
        trace = ctx.take_trace()
        ctx.log.add("op.forward", {"users": n, "out": out})
        ctx.res.probes["mac.forward"] += 1
        if n >= 2:
            ctx.res.nontrivial.append(core.short_hash(["mac", n, case["enc_mode"], case["dec_mode"], shape, call["inputs"]]))
        names = [t[0] for t in trace]
        enc_calls = [t for t in trace if t[0].startswith("enc")]
        if any(not teq(a_, b_) for a_, b_ in zip(xs, xs_before)):
            ctx.violate("input_modified", "a user's input tensor was modified by the forward pass", enc_mode=case["enc_mode"])
            continue
        if alias:
            names = [t[0] for t in trace]
            if names.count("enc") != n or names.count("constraint") != 1 or names.count("channel") != 1:
                ctx.violate("count", f"stage calls {names}: expected {n} encoder calls, one constraint, one channel use")
                continue
            ic = names.index("constraint")
            if not teq(trace[ic][1], n * signal):
                ctx.violate("superposition", f"{n} users all sending the same signal object s: the constraint received a tensor different from {n}*s", enc_mode=case["enc_mode"])
            continue
        # each user's encoder ran exactly once on that user's input
        want = Counter()
        for i in range(n):
            want[(enc_of_user[i].sname, tuple(call["inputs"][i]))] += 1
        got = Counter((t[0], tuple(t[1].reshape(-1).tolist())) for t in enc_calls)
        if got != want:
            ctx.violate("encoders", f"encoder calls {sorted(got.items())} differ from one call of user i's encoder on user i's input {sorted(want.items())}", enc_mode=case["enc_mode"])
            continue
        if names.count("constraint") != 1 or names.count("channel") != 1:
            ctx.violate("count", f"constraint ran {names.count('constraint')}x and channel {names.count('channel')}x in one forward (expected once each)")
            continue
        ic, ih = names.index("constraint"), names.index("channel")
        last_enc = max(i for i, nm in enumerate(names) if nm.startswith("enc"))
        dec_idx = [i for i, nm in enumerate(names) if nm.startswith("dec")]
        if not (last_enc < ic < ih and all(ih < i for i in dec_idx)):
            ctx.violate("order", f"stage order {names}: expected all encoders, then constraint, then channel, then decoder(s)")
            continue
        total = sum(enc_of_user[i].a * xs[i] + enc_of_user[i].b for i in range(n))
        if not teq(trace[ic][1], total):
            ctx.violate("superposition", "the constraint's input is not the exact sum of all users' encoded signals")
            continue
        if not teq(trace[ih][1], con.a * total + con.b):
            ctx.violate("dataflow", "the channel's input is not the constraint's output")
            continue
        rx = ch.a * (con.a * total + con.b) + ch.b
        if any(not teq(trace[i][1], rx) for i in dec_idx):
            ctx.violate("dataflow", "a decoder's input is not the channel's output")
            continue
        if Counter(names[i] for i in dec_idx) != Counter(d.sname for d in dec_list):
            ctx.violate("decoders", f"decoder calls {[names[i] for i in dec_idx]} differ from the configured decoders {[d.sname for d in dec_list]}")


def run_wynerziv(ctx: Ctx):
    case = ctx.case
    tr = ctx.trace
    model = WynerZivModel(
        encoder=RecModel("encoder", tr), channel=RecChannel("channel", tr), decoder=RecModel("decoder", tr, mode="tuple2"),
        correlation_model=RecModel("correlation_model", tr) if case["correlation"] else None,
        quantizer=RecModel("quantizer", tr) if case["quantizer"] else None,
        syndrome_generator=RecModel("syndrome_generator", tr) if case["syndrome"] else None,
        constraint=RecConstraint("constraint", tr) if case["constraint"] else None,
    )
    for op in case["ops"]:
        call = op[1]
        x0 = ("in", call["input"])
        si = ("side", call["input"]) if call["side_info"] else None
        out = model(x0, si)
        trace = ctx.take_trace()
        ctx.log.add("op.forward", {"in": x0, "side": si, "out": out})
        ctx.res.probes["wynerziv.forward"] += 1
        ctx.res.nontrivial.append(core.short_hash(["wz", case["quantizer"], case["syndrome"], case["constraint"], case["correlation"], call["side_info"]]))
        main = ["encoder"] + (["quantizer"] if case["quantizer"] else []) + (["syndrome_generator"] if case["syndrome"] else []) + (["constraint"] if case["constraint"] else []) + ["channel"]
        names = [t[0] for t in trace]
        side_calls = [t for t in trace if t[0] == "correlation_model"]
        chain = [t for t in trace if t[0] not in ("correlation_model",)]
        exp_names = main + ["decoder"]
        if [t[0] for t in chain] != exp_names:
            ctx.violate("order", f"stages ran {names}, declared order {exp_names} (+ correlation model only when no side information is given)")
            continue
        if (si is None) != (len(side_calls) == 1) or len(side_calls) > 1:
            ctx.violate("count", f"correlation model ran {len(side_calls)}x with side_info {'given' if si is not None else 'absent'}")
            continue
        cur = x0
        ok = True
        for t in chain[:-1]:
            if not teq(t[1], cur):
                ctx.violate("dataflow", f"stage {t[0]} received {t[1]!r}, expected {cur!r}")
                ok = False
                break
            cur = (t[0], cur)
        if not ok:
            continue
        d = chain[-1]
        side = si if si is not None else ("correlation_model", x0)
        if not teq(d[1], cur) or not d[2] or not teq(d[2][0], side):
            ctx.violate("dataflow", f"decoder received ({d[1]!r}, {d[2]!r}), expected ({cur!r}, {side!r})")
            continue
        if not teq(out, ("decoder", cur, side)):
            ctx.violate("result", f"returned {out!r}")


RUNNERS = {
    "parallel": run_parallel, "sequential": run_sequential_family, "configurable": run_sequential_family,
    "deepjscc": run_sequential_family, "channelcode": run_sequential_family, "branching": run_branching,
    "feedback": run_feedback, "mac": run_mac, "wynerziv": run_wynerziv, "nested": run_nested,
}


def execute(case: dict) -> RunResult:
    ctx = Ctx(case)
    ctx.log.add("case", {"kind": case["kind"]})
    RUNNERS[case["kind"]](ctx)
    ctx.res.digest = ctx.log.digest()
    ctx.res.n_events = len(ctx.log)
    return ctx.res


# ----------------------------------------------------------------------------- shrinking / samples


def shrink_key(sig):
    return (sig.get("component"), sig.get("kind"))


def shrink_candidates(case: dict):
    import copy

    ops = case["ops"]
    for cand_ops in list_ddmin(ops):
        if any(o[0] == "forward" for o in cand_ops):
            c = copy.deepcopy(case)
            c["ops"] = copy.deepcopy(cand_ops)
            yield c
    # fewer branches / stages
    for key in ("branches", "stages", "inner", "outer"):
        if key in case and len(case[key]) > 1:
            for i in range(len(case[key])):
                c = copy.deepcopy(case)
                c[key] = case[key][:i] + case[key][i + 1:]
                yield c
    if case.get("fail"):
        c = copy.deepcopy(case)
        c["fail"] = []
        yield c
    if case.get("users", 1) > 1:
        c = copy.deepcopy(case)
        c["users"] -= 1
        c["ops"] = [o for o in c["ops"] if o[0] != "replace_encoder" or o[1] < c["users"]]
        for o in c["ops"]:
            if o[0] == "forward":
                o[1]["inputs"] = o[1]["inputs"][: c["users"]]
        if c["enc_mode"] == "list_partial" and c["users"] < 3:
            pass
        else:
            yield c
    # simpler calls: no extra args, shorter / zeroed decision lists
    for i, o in enumerate(ops):
        if o[0] != "forward":
            continue
        call = o[1]
        if call.get("args") or call.get("kwargs"):
            c = copy.deepcopy(case)
            c["ops"][i][1]["args"] = []
            c["ops"][i][1]["kwargs"] = {}
            yield c
        dec = call.get("decisions") or []
        if dec:
            for cut in (0, len(dec) // 2):
                if cut < len(dec):
                    c = copy.deepcopy(case)
                    c["ops"][i][1]["decisions"] = dec[:cut]
                    yield c
            for j, d in enumerate(dec[:24]):
                if d != 0:
                    c = copy.deepcopy(case)
                    c["ops"][i][1]["decisions"][j] = 0
                    yield c


def sample_of(case: dict):
    import copy

    c = copy.deepcopy(case)
    for o in c["ops"]:
        if o[0] == "forward" and "decisions" in o[1]:
            o[1]["decisions"] = o[1]["decisions"][:8] + (["..."] if len(o[1]["decisions"]) > 8 else [])
    return c


def evidence_extra(total):
    import math

    out = {"schedule_controlled": total["probes"].get("seam.missed", 0) == 0}
    perms = {}
    for k, s in total["extra_sets"].items():
        if k.startswith("yield_perms_n"):
            n = int(k[len("yield_perms_n"):])
            perms[f"n={n}"] = f"{len(s)}/{math.factorial(n)}"
    out["yield_permutations_reached"] = perms
    return out


if __name__ == "__main__":
    from sim import runner

    sys.exit(runner.main(sys.modules[__name__]))
