#!/venv/bin/python
"""C13 — fading channels apply block-constant, correctly normalised gains: y = h.x + n.

Engine E4 `rngsim`: the simulator owns the random source of the fading process
(torch.manual_seed from the case) and the injected csi= / noise= arguments.
Exact: y = h.x + n for supplied (h, n); gain constant inside every coherence block (including
the short last block); shape preserved.  Statistical (analytic variances, union <= 1e-9 per
run): E|h|^2 = 1 (Rayleigh, Rician), LOS/scatter = K, gains of different blocks / batch items
uncorrelated, noise calibrated against the faded signal.
"""

from __future__ import annotations

import os
import sys

sys.path.insert(0, os.path.dirname(os.path.dirname(os.path.abspath(__file__))))

import copy
import math

import torch

from sim import core, stats
from sim.core import EventLog, RunResult, Violation

from kaira.channels import FlatFadingChannel, LogNormalFadingChannel, RayleighFadingChannel, RicianFadingChannel

PROPERTY = "C13"
ENGINE = "rngsim"
LEVEL = "exploration"
TIERS = {
    "quick": {"runs": 1500, "budget_s": 300, "chunk": 20},
    "thorough": {"runs": 30000, "budget_s": 3000, "chunk": 60},
}
SELFTEST_N = 40
RULE = (
    "one case = (fading type + parameters [K | shadow sigma], coherence time, how constructed [generic | convenience class], real/complex, dtype, "
    "shape, noise parameterisation, mode [structure | supplied | statistics | noise], torch seed, data seed); realisation fixed by "
    "torch.manual_seed(case.torch_seed). Generated from run_seed=H(C13,VERIF_SEED,index). Distinct = hash of the whole case. Non-trivial = the "
    "channel generated at least two coherence blocks or was given csi and noise (every case is; cases with a single block are not counted)."
)
ASSUMPTIONS = [
    "torch's global generator is the only random source (seam: torch.manual_seed); channel state and noise can be injected through csi= / noise=",
    f"statistical clauses: analytic variances from the target law, per-test two-sided level {stats.ALPHA:g}; union over a run <= 1e-9",
    "csi / noise are supplied in the channel's internal (batch, flattened-sequence) layout for inputs with more than 2 dimensions",
    "no normalisation is asserted for log-normal shadowing (documented as unit-mean shadowing)",
]
COMPONENTS_REAL = ["FlatFadingChannel (rayleigh, rician, lognormal)", "RayleighFadingChannel", "RicianFadingChannel", "LogNormalFadingChannel"]
COMPONENTS_STUB = ["random source: torch generator seeded by the simulator", "signal source (local torch.Generator)", "supplied csi / noise tensors"]

DT = {"float32": torch.float32, "float64": torch.float64}
KS = [0.0, 0.1, 0.5, 1.0, 2.0, 4.0, 10.0, 30.0, 100.0]


def gen_case(run_seed: int, index: int, tier: str) -> dict:
    rng = core.rng_for(run_seed)
    mode = rng.choices(["structure", "supplied", "statistics", "noise"], weights=[35, 20, 35, 10])[0]
    if index % 5000 == 11:
        # one very long sequence per 5000 runs: positions beyond 2**24 are where float32 index arithmetic breaks
        return {"mode": "huge", "fading": rng.choice(["rayleigh", "rician", "lognormal"]), "k": 2.0, "sigma_db": 4.0, "T": rng.choice([1, 7]),
                "how": "generic", "complex": False, "dtype": "float32", "shape": [(1 << 24) + rng.choice([257, 1001])],
                "noise_param": "power", "power": 0.1, "snr_db": 10.0, "sig_power": 1.0,
                "torch_seed": rng.randrange(1 << 31), "data_seed": rng.randrange(1 << 31)}
    ft = rng.choice(["rayleigh", "rician", "rician", "lognormal"])
    if mode == "statistics":
        shape = rng.choice([[1 << 20], [64, 16384], [1024, 1024], [16, 4, 128, 128], [4096, 256]])
        n = 1
        for s in shape:
            n *= s
        per_item = n // (shape[0] if len(shape) > 1 else 1)
        T = rng.choice([1, 1, 2, 3, 7])
        T = min(T, per_item)
    elif mode == "noise":
        shape = rng.choice([[1 << 19], [32, 16384], [8, 3, 128, 256]])
        T = rng.choice([1, 5, 64, 1000])
    else:
        shape = rng.choice([[1], [5], [17], [64], [100], [1, 9], [3, 10], [4, 33], [2, 3, 4, 5], [3, 1, 7, 7], [2, 100], [6, 64]])
        n = 1
        for s in shape:
            n *= s
        per_item = n // (shape[0] if len(shape) > 1 else 1)
        T = rng.choice([1, 2, 3, 4, 5, 7, 8, 10, 16, per_item, per_item + 3, max(1, per_item - 1)])
    return {
        "mode": mode, "fading": ft, "k": rng.choice(KS), "sigma_db": rng.choice([0.0, 1.0, 4.0, 8.0]),
        "T": int(T), "how": rng.choice(["generic", "generic", "convenience"]),
        "complex": rng.random() < 0.5, "dtype": rng.choice(["float32", "float32", "float64"]), "shape": shape,
        "noise_param": rng.choice(["power", "snr"]), "power": 10 ** rng.uniform(-3, 1), "snr_db": round(rng.uniform(-10, 35), 2),
        "sig_power": 10 ** rng.uniform(-2, 2),
        "torch_seed": rng.randrange(1 << 31), "data_seed": rng.randrange(1 << 31),
        "warmup": rng.choice([None, None, [6], [2, 9], [3, 2, 2, 2], "same", "same"]),  # earlier calls on the same channel object: another shape, or the very shape of the judged call
        "module_cast": rng.choice([None, None, None, "double", "float", "to_cpu", "deepcopy"]),
        "noncontig": rng.random() < 0.2,
        "warmup_n": rng.choice([1, 1, 2, 4]), "other_instance_first": rng.random() < 0.2, "mode_toggle": rng.choice([None, None, "eval", "train"]),
        "supplied_precision": rng.choice(["same", "same", "noise_other", "csi_other", "both_other"]),
        "dc": rng.random() < 0.4,  # noise mode: a signal with a DC component through channel state with a non-zero mean
        "rows_unequal": rng.random() < 0.5,  # noise mode: batch items of very different strength (the noise level is one number for the whole call)
        # a model sweep builds every channel from one parameter set: k_factor and shadow_sigma_db are given whatever the fading type
        # (each is documented as used only by its own fading type)
        "all_params": rng.random() < 0.3,
        # noise mode: the channel draws its own coefficients (no csi supplied); the faded signal is read back by a same-seed
        # call with injected zero noise
        "self_csi": rng.random() < 0.5,
    }


def _channel(case):
    kw = {"avg_noise_power": case["power"]} if case["noise_param"] == "power" else {"snr_db": case["snr_db"]}
    ft = case["fading"]
    if case["how"] == "convenience":
        extra = {"shadow_sigma_db": case["sigma_db"] if case["sigma_db"] > 0 else 6.0} if case.get("all_params") else {}
        if ft == "rayleigh":
            return RayleighFadingChannel(coherence_time=case["T"], **extra, **kw)
        if ft == "rician":
            return RicianFadingChannel(k_factor=case["k"], coherence_time=case["T"], **extra, **kw)
        return LogNormalFadingChannel(shadow_sigma_db=case["sigma_db"], coherence_time=case["T"], **kw)
    if case.get("all_params"):
        return FlatFadingChannel(ft, case["T"], k_factor=case["k"], shadow_sigma_db=case["sigma_db"] if (ft == "lognormal" or case["sigma_db"] > 0) else 6.0, **kw)
    return FlatFadingChannel(ft, case["T"], k_factor=case["k"] if ft == "rician" else None, shadow_sigma_db=case["sigma_db"] if ft == "lognormal" else None, **kw)


def _signal(case, g):
    dt = DT[case["dtype"]]
    amp = math.sqrt(case["sig_power"])
    shape = case["shape"]
    if case["complex"]:
        return torch.complex(torch.randn(shape, generator=g, dtype=dt), torch.randn(shape, generator=g, dtype=dt)) * (amp / math.sqrt(2))
    return torch.randn(shape, generator=g, dtype=dt) * amp


def _pw(t) -> float:
    if torch.is_complex(t):
        return float((t.real.double() ** 2 + t.imag.double() ** 2).mean())
    return float((t.double() ** 2).mean())


def execute(case: dict) -> RunResult:
    log = EventLog()
    res = RunResult()
    log.add("case", case)
    comp = "FlatFadingChannel"

    def violate(kind, msg, **extra):
        sig = {"component": comp, "kind": kind, "fading": case["fading"]}
        sig.update(extra)
        res.violations.append(Violation(sig, f"C13/{comp}[{case['fading']}]: {msg} [T={case['T']}, shape={case['shape']}, complex={case['complex']}, dtype={case['dtype']}, how={case['how']}, K={case['k']}]"))

    g = torch.Generator().manual_seed(case["data_seed"])
    shape = case["shape"]
    B = shape[0] if len(shape) > 1 else 1
    n = 1
    for s in shape:
        n *= s
    L = n // B
    T = case["T"]
    nblocks = (L + T - 1) // T
    if case.get("other_instance_first"):
        other = dict(case, T=case["T"] + 3, k=(case["k"] + 1.0), how="generic")
        torch.manual_seed(case["torch_seed"] ^ 0x777)
        _channel(other)(torch.randn(3, 11))
        res.faults["history.other_instance_first"] += 1
    ch = _channel(case)
    if case.get("mode_toggle"):
        ch.train(case["mode_toggle"] == "train")
    mode = case["mode"]
    cdt = torch.complex128 if case["dtype"] == "float64" else torch.complex64
    if case.get("module_cast"):
        import copy as _copy

        mc = case["module_cast"]
        ch = {"double": ch.double, "float": ch.float, "to_cpu": lambda: ch.to("cpu"), "deepcopy": lambda: _copy.deepcopy(ch)}[mc]()
        res.faults[f"history.module_{mc}"] += 1
    if case.get("warmup"):
        gw = torch.Generator().manual_seed(case["data_seed"] ^ 0x77)
        torch.manual_seed(case["torch_seed"] ^ 0x2468)
        wshape = case["shape"] if case["warmup"] == "same" else case["warmup"]
        if case["warmup"] != "same" or n <= (1 << 21):
            for _ in range(case.get("warmup_n", 1)):
                ch(torch.randn(wshape, generator=gw, dtype=DT[case["dtype"]]) * 3.0)
                res.faults["history.earlier_call_on_same_object"] += 1

    def flat(t):  # the channel's internal (batch, sequence) layout
        return t.reshape(B, L)

    def as_c(t):
        return t if torch.is_complex(t) else torch.complex(t, torch.zeros_like(t))

    if mode == "huge":
        x = torch.ones(shape, dtype=torch.float32)
        torch.manual_seed(case["torch_seed"])
        try:
            y = ch(x, noise=torch.zeros(1, 1, dtype=torch.complex64))
        except Exception as e:
            violate("exception_long_sequence", f"a sequence of {L} samples raised {type(e).__name__}: {str(e)[:120]}")
            res.digest, res.n_events = log.digest(), len(log)
            return res
        res.nontrivial.append(core.short_hash(case))
        res.probes["huge_sequence_cases"] += 1
        log.add("huge", {"shape": list(y.shape), "head": y.reshape(-1)[:8], "tail": y.reshape(-1)[-8:]})
        if list(y.shape) != list(shape):
            violate("shape", f"output shape {list(y.shape)} differs from input shape {list(shape)}")
        else:
            yf = y.reshape(-1)
            del y, x
            first = (torch.arange(L) // T) * T  # first index of each sample's block (integer arithmetic)
            same = yf == yf[first]
            if not bool(same.all()):
                i_ = int((~same).nonzero()[0])
                violate("block_constancy", f"gain differs inside a coherence block at sample {i_} (block starts at {int(first[i_])}) of a {L}-sample sequence")
            elif T == 1 or nblocks >= 2:
                # neighbouring blocks must not share a coefficient systematically
                starts = yf[::T]
                eq = int((starts[1:] == starts[:-1]).sum())
                if eq > 0:  # continuous gains: an exact coincidence of neighbours has probability ~2^-46 per pair
                    violate("blocks_share_gain", f"{eq} pairs of neighbouring coherence blocks carry exactly the same coefficient in a {L}-sample sequence")
        res.digest, res.n_events = log.digest(), len(log)
        return res
    if mode == "supplied":
        x = _signal(case, g)
        if case.get("noncontig") and x.dim() >= 2:
            x = x.transpose(0, -1).contiguous().transpose(0, -1)
            res.probes["input.noncontiguous"] += 1
        x0 = x.clone()
        h = torch.complex(torch.randn(B, L, generator=g), torch.randn(B, L, generator=g)).to(cdt)
        nz = torch.complex(torch.randn(B, L, generator=g), torch.randn(B, L, generator=g)).to(cdt) * 0.3
        prec = case.get("supplied_precision", "same")  # the caller's csi / noise may be kept in another precision than the signal
        other_c = torch.complex64 if cdt == torch.complex128 else torch.complex128
        if prec in ("noise_other", "both_other"):
            nz = (nz.to(torch.complex128) * (1.0 + 1e-9)).to(other_c) if other_c == torch.complex128 else nz.to(other_c)
        if prec in ("csi_other", "both_other"):
            h = h.to(other_c)
        res.probes[f"supplied.precision_{prec}"] += 1
        if len(shape) == 1:
            h_arg, n_arg = (h.reshape(L), nz.reshape(L)) if (case["data_seed"] & 1) else (h, nz)
        else:
            h_arg, n_arg = h, nz
        torch.manual_seed(case["torch_seed"])
        y = ch(x, csi=h_arg, noise=n_arg)
        want = (h * as_c(flat(x)) + nz).reshape(shape)  # ordinary tensor arithmetic, with its type promotion
        log.add("supplied", y)
        res.faults["injected.csi"] += 1
        res.faults["injected.noise"] += 1
        res.nontrivial.append(core.short_hash(case))
        if list(y.shape) != list(shape):
            violate("shape", f"output shape {list(y.shape)} differs from input shape {list(shape)}")
        elif y.dtype != want.dtype:
            violate("supplied_identity", f"channel(x, csi=h, noise=n) has dtype {y.dtype}, h*x + n has dtype {want.dtype} (x {x.dtype}, h {h.dtype}, n {nz.dtype})", precision=prec)
        elif not torch.equal(y, want):
            violate("supplied_identity", f"channel(x, csi=h, noise=n) is not exactly h*x + n (max abs difference {float((y - want).abs().max()):.3g})")
        if not torch.equal(x, x0):
            violate("input_modified", "the input tensor was modified")
    elif mode == "structure":
        # injected zero noise: the effective gain y/x must be constant inside every coherence block
        x = _signal(case, g)
        if case["data_seed"] & 2:
            x = torch.ones_like(x)
        if case.get("noncontig") and x.dim() >= 2:
            x = x.transpose(0, -1).contiguous().transpose(0, -1)
            res.probes["input.noncontiguous"] += 1
        x0 = x.clone()
        zero = torch.zeros(B, L, dtype=cdt)
        torch.manual_seed(case["torch_seed"])
        y = ch(x, noise=zero if len(shape) > 1 or (case["data_seed"] & 1) else zero.reshape(L))
        log.add("structure", y)
        res.faults["injected.noise"] += 1
        if nblocks >= 2:
            res.nontrivial.append(core.short_hash(case))
        if L % T != 0:
            res.probes["coherence_time_not_dividing_length"] += 1
        if T > L:
            res.probes["coherence_time_longer_than_sequence"] += 1
        if list(y.shape) != list(shape):
            violate("shape", f"output shape {list(y.shape)} differs from input shape {list(shape)}")
        else:
            gain = flat(y).to(torch.complex128) / as_c(flat(x)).to(torch.complex128)
            idx = (torch.arange(L) // T) * T  # first index of each sample's block
            ref = gain[:, idx]
            dev = (gain - ref).abs()
            tol = 1e-4 * ref.abs() + 1e-6
            if bool((dev > tol).any()):
                b_, i_ = [int(v) for v in torch.nonzero(dev > tol)[0]]
                violate("block_constancy", f"gain differs inside a coherence block: item {b_}, sample {i_} (block starts at {int(idx[i_])}): {complex(gain[b_, i_]):.5g} vs {complex(ref[b_, i_]):.5g}")
            if nblocks >= 2:
                # gains of different blocks must not all coincide (a single gain per item would)
                first = gain[:, ::T]
                if first.shape[1] >= 2 and bool(((first - first[:, :1]).abs() <= 1e-7 * first[:, :1].abs()).all()):
                    violate("single_gain_per_item", "every coherence block of an item carries the same gain")
            if B >= 2 and (case["data_seed"] & 2):
                # x = 1 and zero noise: y is the coefficient itself, exactly. Coefficients are drawn independently across batch
                # items from a continuous law, so no value may occur in two different items (a coincidence has probability ~2^-46)
                first = flat(y)[:, ::T]
                vals = {}
                shared = 0
                for b_ in range(B):
                    for v in set(complex(z) for z in first[b_].tolist()):
                        if v in vals and vals[v] != b_:
                            shared += 1
                        vals.setdefault(v, b_)
                res.probes["structure.cross_item_coefficient_sharing_checked"] += 1
                if shared:
                    violate("coefficient_shared_between_items", f"{shared} coefficient value(s) occur in two different batch items (items must fade independently)")
        if not torch.equal(x, x0):
            violate("input_modified", "the input tensor was modified")
    elif mode == "statistics":
        x = torch.ones(shape, dtype=DT[case["dtype"]])
        if case["complex"]:
            x = torch.complex(x, torch.zeros_like(x))
        zero = torch.zeros(B, L, dtype=cdt)
        torch.manual_seed(case["torch_seed"])
        y = ch(x, noise=zero)
        log.add("statistics", y)
        if list(y.shape) != list(shape):
            violate("shape", f"output shape {list(y.shape)} differs from input shape {list(shape)}")
            res.digest, res.n_events = log.digest(), len(log)
            return res
        hb = flat(y)[:, ::T].to(torch.complex128)  # one gain per block
        N = hb.numel()
        res.faults["fading_blocks_drawn"] += N
        res.nontrivial.append(core.short_hash(case))
        ft = case["fading"]
        m = complex(hb.mean())
        p2 = float((hb.abs() ** 2).mean())
        if ft in ("rayleigh", "rician"):
            K = case["k"] if ft == "rician" else 0.0
            sd = math.sqrt((1 + 2 * K) / (1 + K) ** 2 / N)
            ok, d = stats.normal_test(p2, 1.0, sd, 1e-5)
            res.probes["stat.unit_gain_tests"] += 1
            if not ok:
                violate("mean_square_gain", f"E|h|^2 is not 1: {d}", stat=True)
            sig2 = 1.0 / (1 + K)
            if K == 0.0:
                # no line-of-sight: |mean h|^2 * N / sigma^2 ~ Exp(1)
                if abs(m) ** 2 * N / sig2 > -stats.LOG_ALPHA:
                    violate("k_factor", f"K=0 but mean gain is {m:.5g} over {N} blocks (line-of-sight component present)", stat=True)
            else:
                v = float(((hb - m).abs() ** 2).mean())
                khat = abs(m) ** 2 / v
                ok, d = stats.normal_test(math.log(khat / K), 0.0, math.sqrt((2.0 / K + 1.0) / N), 1e-4)
                res.probes["stat.k_factor_tests"] += 1
                if not ok:
                    violate("k_factor", f"line-of-sight/scattered power ratio {khat:.5g} vs configured K={K:g}: {d} (log scale)", stat=True)
            e2 = 1.0
            var_c = sig2 * sig2
        else:
            s_ln = case["sigma_db"] * math.log(10.0) / 10.0
            e2 = math.exp(s_ln ** 2)
            var_c = e2 * e2
        # independence: adjacent blocks of one item, and the same block of adjacent items
        c = hb - m
        tests = []
        if c.shape[1] >= 2:
            tests.append(("adjacent blocks", (c[:, :-1] * c[:, 1:].conj())))
        if c.shape[0] >= 2:
            tests.append(("adjacent batch items", (c[:-1, :] * c[1:, :].conj())))
        for nm, prod in tests:
            M = prod.numel()
            if M < 20000:
                continue
            cc = complex(prod.mean())
            res.probes["stat.independence_tests"] += 1
            heavy = 6.0 if ft == "lognormal" else 1.5  # heavier tails: widen rather than risk a false alarm
            if abs(cc) ** 2 * M / var_c > -stats.LOG_ALPHA * heavy:
                violate("dependence", f"gains of {nm} are correlated: mean product {cc:.5g} over {M} pairs (independent gains give ~{math.sqrt(var_c / M):.3g})", stat=True, which=nm)
    else:  # noise calibrated against the *faded* signal, csi supplied so the faded signal is known
        x = _signal(case, g)
        h = (torch.complex(torch.randn(B, nblocks, generator=g), torch.randn(B, nblocks, generator=g)) * (0.5 ** 0.5)).to(cdt)
        if case.get("dc"):
            x = x.abs() + 0.5 * math.sqrt(case["sig_power"]) if not torch.is_complex(x) else x + (1.0 + 0.5j) * math.sqrt(case["sig_power"])
            h = h * 0.3 + (0.9 + 0.2j)  # line-of-sight-like state: the faded signal has a clearly non-zero mean
            res.probes["noise.dc_signal_and_mean_csi"] += 1
        if case.get("rows_unequal") and B >= 2:
            wrow = torch.logspace(-1, 1, B, dtype=torch.float64).reshape([B] + [1] * (len(shape) - 1))
            x = (x * wrow).to(x.dtype)
            res.probes["noise.batch_items_of_unequal_strength"] += 1
        hexp = h[:, torch.arange(L) // T]
        if case.get("self_csi"):
            if case.get("rows_unequal") and B >= 4:
                x = x.clone()
                x.reshape(B, -1)[1] = 0  # one silent item: what it receives is noise only
            torch.manual_seed(case["torch_seed"])
            faded = ch(x, noise=torch.zeros(B, L, dtype=cdt))  # same seed, zero noise: h.x with the coefficients of the judged call
            torch.manual_seed(case["torch_seed"])
            y = ch(x)
            faded = as_c(faded.reshape(shape)) if not torch.is_complex(faded) else faded.reshape(shape)
            res.probes["noise.channel_draws_its_own_coefficients"] += 1
        else:
            torch.manual_seed(case["torch_seed"])
            y = ch(x, csi=hexp)
            faded = (hexp * as_c(flat(x))).reshape(shape)
        log.add("noise", y)
        res.faults["injected.csi"] += 1
        res.nontrivial.append(core.short_hash(case))
        if list(y.shape) != list(shape):
            violate("shape", f"output shape {list(y.shape)} differs from input shape {list(shape)}")
        else:
            nz = y - faded
            pf, pn = _pw(faded), _pw(nz)
            P = case["power"] if case["noise_param"] == "power" else pf / 10 ** (case["snr_db"] / 10.0)
            eps = 2.0 ** -24 if case["dtype"] == "float32" else 2.0 ** -53
            ymax = float(y.abs().max())
            slack = 1e-5 * P + 4 * (eps * ymax) ** 2 + 4 * eps * ymax * math.sqrt(P)
            ok, d = stats.normal_test(pn, P, P * math.sqrt(1.0 / n), slack)
            res.probes["stat.noise_power_tests"] += 1
            if not ok:
                violate("noise_power", f"noise power relative to the faded signal ({case['noise_param']}): {d}", stat=True, noise_param=case["noise_param"])
            elif B >= 4:
                # one noise level for the whole call: the weakest and the strongest batch items see the same noise power
                q = max(1, B // 4)
                nzr = nz.reshape(B, -1)
                for nm, part in (("first", nzr[:q]), ("last", nzr[-q:])):
                    pq = _pw(part)
                    ok, d = stats.normal_test(pq, P, P * math.sqrt(1.0 / part.numel()), slack)
                    res.probes["stat.noise_power_by_item_tests"] += 1
                    if not ok:
                        violate("noise_power_by_item", f"noise power on the {nm} quarter of the batch items differs from the level of the call ({case['noise_param']}): {d}", stat=True, noise_param=case["noise_param"])
                        break
    res.digest, res.n_events = log.digest(), len(log)
    return res


def shrink_key(sig):
    return (sig.get("component"), sig.get("kind"), sig.get("fading"))


def shrink_candidates(case: dict):
    if case["mode"] in ("structure", "supplied"):
        for shp in ([2], [5], [2, 4], [3, 10]):
            if shp != case["shape"]:
                c = copy.deepcopy(case)
                c["shape"] = shp
                yield c
        for T in (1, 2, 3):
            if T < case["T"]:
                c = copy.deepcopy(case)
                c["T"] = T
                yield c
    for k, v in (("dtype", "float32"), ("how", "generic"), ("complex", False)):
        if case.get(k) != v:
            c = copy.deepcopy(case)
            c[k] = v
            yield c


if __name__ == "__main__":
    from sim import runner

    sys.exit(runner.main(sys.modules[__name__]))
