#!/venv/bin/python
"""C09 — a coded, modulated link over an ideal or bounded-error channel returns the data.

Engine E2 `linksim`: the real ChannelCodeModel is assembled from real encoder, modulator,
constraint, demodulator and decoder; the simulator owns the channel between them and injects
in-budget damage (bit flips <= t per block, symbol displacement < d_min/2) or plugs in the
library's own BSC / AWGN channels under a seeded generator with post-hoc budget classification.
Oracle on every in-budget run: delivered message == sent message.
"""

from __future__ import annotations

import os
import sys

sys.path.insert(0, os.path.dirname(os.path.dirname(os.path.abspath(__file__))))

import copy

import torch

from sim import catalogue as C
from sim import core, linksim
from sim.core import EventLog, RunResult, Violation

PROPERTY = "C09"
ENGINE = "linksim"
LEVEL = "exploration"
TIERS = {
    "quick": {"runs": 7000, "budget_s": 420, "chunk": 100},
    "thorough": {"runs": 500000, "budget_s": 3300, "chunk": 500},
}
SELFTEST_N = 64
RULE = (
    "one case = (code spec, decoder kind + options, modulation spec, hard|soft, layout [rows x blocks per row], explicit messages, fault plan "
    "[ideal | flips: explicit positions per block, weight <= advertised t | displace: rho*d_min/2 in seeded directions | bsc(p) | awgn(power)]); "
    "generated from run_seed=H(C09,VERIF_SEED,index). Distinct = hash of (code, decoder, modulation, layout, plan with its pattern, messages). "
    "Non-trivial = at least one bit actually flipped or one symbol actually displaced (ideal-channel runs are counted as zero_fault_runs)."
)
ASSUMPTIONS = [
    "t = floor((d-1)/2) with d as advertised by the code object (minimum_distance / error_correction_capability; repetition: class docstring d = n)",
    "d_min computed by the harness from the modulator's published constellation; displacement factor rho <= 0.98",
    "a forward-time exception on a row carrying several code blocks is a rejected layout (allowed by C20), counted, not a violation; on one block per row it is a violation",
    "real BSC / AWGN channels: damage classified after the run from the tapped signals; over-budget runs assert nothing",
    "families that advertise no distance (generic linear, LDPC, polar) run only on ideal / displace plans",
]
COMPONENTS_REAL = ["ChannelCodeModel", "all block-code encoders", "all hard and soft decoders", "BPSK/QPSK/PSK/QAM/PAM/pi4-QPSK/identity modulators and demodulators", "IdentityConstraint", "PerfectChannel", "BinarySymmetricChannel", "BinaryErasureChannel", "AWGNChannel", "the same channels configured as ideal (p = 0, noise power 0)"]
COMPONENTS_STUB = ["FaultChannel (harness injector)", "TapModulator/TapDemodulator (delegating recorders)", "InverseEncodeDecoder (wraps encoder.inverse_encode as a decoder stage)"]

HARD_FAMILIES = ["hamming", "hamming", "repetition", "spc", "reed_muller", "cyclic", "bch", "bch", "golay", "reed_solomon", "linear", "systematic"]
SOFT_FAMILIES = ["ldpc", "ldpc", "spc", "reed_muller", "polar", "polar", "hamming", "linear", "systematic"]


def warmup():
    pass


def _dec_opts(rng, kind):
    if kind == "bp":
        return {"iters": rng.choice([5, 10, 20]), "arctanh": rng.random() < 0.7}
    if kind == "minsum":
        return {"iters": rng.choice([5, 10, 20]), "scaling": rng.choice([1.0, 1.0, 0.8]), "offset": rng.choice([0.0, 0.0, 0.1])}
    if kind == "sc":
        return {"regime": rng.choice(["sum_product", "min_sum"])}
    if kind == "bp_polar":
        return {"iters": rng.choice([10, 20]), "regime": rng.choice(["sum_product", "min_sum"])}
    if kind == "ml" and rng.random() < 0.3:
        return {"precompute": False}  # the documented low-memory mode: the codebook is generated on demand
    return {}


_MULTI = {}


def _accepts_multiblock(spec, dk, opts, n) -> bool:
    key = core.cjson([spec, dk, opts])
    if key not in _MULTI:
        try:
            with torch.no_grad():
                out = C.private_decoder(spec, dk, opts)(torch.ones(1, 2 * n) if dk in C.SOFT_DECODERS else torch.zeros(1, 2 * n))
            _MULTI[key] = isinstance(out, torch.Tensor)
        except Exception:
            _MULTI[key] = False
    return _MULTI[key]


def _pattern(rng, n, w, enc, spec):
    """positions of exactly w flips inside one block, by a seeded placement kind"""
    if w <= 0:
        return []
    kind = rng.choice(["uniform", "uniform", "burst", "info", "parity", "head", "tail"])
    iset = None
    try:
        iset = [int(i) for i in enc.information_set.tolist()]
    except Exception:
        iset = None
    if kind == "burst":
        s = rng.randrange(0, n - w + 1)
        return list(range(s, s + w))
    if kind == "head":
        return list(range(w))
    if kind == "tail":
        return list(range(n - w, n))
    if kind in ("info", "parity") and iset is not None:
        pool = iset if kind == "info" else [i for i in range(n) if i not in set(iset)]
        if len(pool) >= w:
            return sorted(rng.sample(pool, w))
    return sorted(rng.sample(range(n), w))


def gen_case(run_seed: int, index: int, tier: str) -> dict:
    rng = core.rng_for(run_seed)
    soft = rng.random() < 0.35
    spec = C.gen_code_spec(rng, SOFT_FAMILIES if soft else HARD_FAMILIES)
    huge = index % 3000 == 13  # one very large batch per 3000 runs: more rows than 2**24 / 2**k through one chain call
    # thorough tier only: one chain call that makes more than 2**24 channel uses of an ideal library channel
    wide = tier == "thorough" and index % 25000 == 17
    if wide:
        soft = False
        spec = {"family": "spc", "k": 7}
    if huge:
        soft = False
        spec = rng.choice([{"family": "golay", "extended": False, "information_set": "left"}, {"family": "hamming", "mu": 4, "extended": False, "information_set": "left"}])
    case = {"code": spec, "soft": soft}
    try:
        enc = C.build_encoder(spec)
        kinds = C.decoder_kinds(spec, enc, soft)
        if not kinds:
            raise C.Inadmissible("no decoder of the requested kind for this family")
        dk = "ml" if (huge or wide) else rng.choice(kinds)
        opts = {} if (huge or wide) else _dec_opts(rng, dk)
        C.build_decoder(spec, dk, opts)
    except C.Inadmissible as e:
        case["inadmissible"] = str(e)[:300]
        return case
    case["decoder"], case["dec_opts"] = dk, opts
    n, k = enc.code_length, enc.code_dimension
    d, dsrc = C.advertised_distance(spec, enc)
    t = (d - 1) // 2 if d else None
    case["advertised_d"], case["d_source"] = d, dsrc
    # ---- plan kind first (it constrains the modulation)
    plans = ["ideal", "displace", "displace", "awgn"]
    if not soft and t is not None:
        plans += ["flips"] * 5 + ["bsc"]
    pk = "flips" if huge else rng.choice(plans)
    ideal_impl = "perfect"
    if wide:
        pk, ideal_impl = "ideal", rng.choice(["bsc0", "bsc0", "bec0"])
    elif pk == "ideal":
        ideal_impl = rng.choice(["perfect", "perfect", "awgn0"] + ([] if soft else ["bsc0", "bec0"]))
    if huge:
        mod = {"scheme": "bpsk", "complex_output": rng.random() < 0.5}
    elif pk == "bsc" or ideal_impl in ("bsc0", "bec0"):
        mod = {"scheme": "identity"}
    elif soft:
        mod = C.gen_mod_spec(rng, ["bpsk", "qpsk", "psk", "qam", "qam", "pam", "pi4qpsk"])
    elif pk in ("displace", "awgn"):
        mod = C.gen_mod_spec(rng, ["bpsk", "qpsk", "psk", "qam", "pam", "pi4qpsk"])
    else:
        mod = C.gen_mod_spec(rng)
    case["via_registry"] = rng.random() < 0.2
    try:
        m, _ = C.build_modem(mod, case["via_registry"])
        bps = int(m.bits_per_symbol) if mod["scheme"] != "identity" else 1
    except Exception as e:
        case["inadmissible"] = f"modem: {e}"[:300]
        return case
    b = next((bb for bb in (1, 2, 3, 4) if (bb * n) % bps == 0), None)
    bits_channel = pk == "bsc" or ideal_impl in ("bsc0", "bec0")
    if b is None or (b > 1 and not bits_channel and not _accepts_multiblock(spec, dk, opts, n) and rng.random() < 0.8):
        # a decoder that rejects rows carrying several blocks (measured on this tree with the all-zero word)
        # gets most of its runs on one block per row; sampling bias only, the oracle is unchanged
        mod = {"scheme": "bpsk", "complex_output": rng.random() < 0.5} if not bits_channel else mod
        m, _ = C.build_modem(mod)
        bps, b = 1, 1
    if b == 1 and rng.random() < 0.25 and n * 2 <= 64:
        b = rng.choice([x for x in (2, 3, 4) if (x * n) % bps == 0] or [1])
    B = rng.choice([1, 1, 2, 3, 4, 4, 8])
    rB = rng.random()
    if rB < 0.13:
        # medium-sized batches: just above small powers of two (10 %), hundreds to thousands of rows (3 %); bounded so that a
        # codebook-vs-batch comparison (2^k x B x n) stays below ~0.5 GB
        B = rng.randrange(9, 71) if rB < 0.10 else rng.choice([100, 257, 1000, 2100, 2100, 4100])
        B = min(B, max(12, (1 << 27) // ((1 << min(k, 20)) * n)) - 3)
    if huge:
        b, B = 1, (1 << 24) // (1 << k) + rng.choice([3, 4, 37])
    if wide:
        b, B = 1, (1 << 24) // n + rng.choice([5, 6, 41])
    case["mod"], case["B"], case["b"] = mod, B, b
    # bits arrive in whatever dtype the caller keeps them in (a dtype may be rejected, never answered wrongly)
    case["msg_dtype"] = rng.choice(["float32", "float32", "float32", "float32", "float64", "int64", "int32", "uint8", "int8", "float16"])
    zero_msg = rng.random() < 0.05
    case["messages"] = [[0 if zero_msg else rng.randrange(2) for _ in range(b * k)] for _ in range(B)]
    if wide:
        case["messages"] = [[0] * k]  # placeholder; the rows are generated from the seed below (too many to list)
        case["messages_gen"] = {"seed": rng.randrange(1 << 31), "rows": B, "bits": k}
        case["msg_dtype"] = "float32"
        huge = True  # no warm-ups, no sibling variations for this one
    if B == 1 and b == 1 and not huge and rng.random() < 0.12:
        case["one_d"] = True  # a single unbatched word (k,): a layout a component may reject, never answer wrongly
    if rng.random() < 0.3 and not huge:  # the same chain object has been used before (other batch sizes, same framing)
        case["warmup_messages"] = [[[rng.randrange(2) for _ in range(b * k)] for _ in range(rng.choice([1, 1, 2, 3]))] for _ in range(rng.choice([1, 1, 2, 3, 5]))]
        if rng.random() < 0.4:  # the very messages of the judged call have been sent before (over the undisturbed channel)
            case["warmup_messages"].insert(rng.randrange(len(case["warmup_messages"]) + 1), [list(r_) for r_ in case["messages"]])
        if rng.random() < 0.2:  # one earlier call is malformed (one bit too many) and raises; the chain is used again afterwards
            case["warmup_messages"].insert(rng.randrange(len(case["warmup_messages"]) + 1), [[rng.randrange(2) for _ in range(b * k + 1)]])
    if not huge and rng.random() < 0.12:
        # a second decoder built on the same encoder object (size bounds as for the decoders under test)
        # only decoders the catalogue admits for this code (its size bounds keep table and codebook constructions small)
        co = [kd for kd in ("syndrome", "ml") if kd in C.decoder_kinds(spec, enc, False)] + [kd for kd in ("bp", "minsum", "bp") if kd in C.decoder_kinds(spec, enc, True)]
        if co:
            case["cohabit"] = rng.choice(co)
    if rng.random() < 0.15:  # a similar code (same encoder class, same n and k) was set up earlier in the process
        sib = C.sibling_spec(rng, spec)
        if sib is not None:
            case["prelude"] = sib
    llr_floor = 10 ** rng.uniform(0.0, 1.5)  # smallest |LLR| the soft run will contain (1 .. 31), see below
    # ---- the plan itself
    if pk == "ideal":
        case["plan"] = {"kind": "ideal"}
        if ideal_impl != "perfect":
            case["plan"].update({"impl": ideal_impl, "torch_seed": rng.randrange(1 << 31)})
    elif pk == "flips":
        same = rng.random() < 0.3
        pats = []
        first = None
        over = []  # rows with a block carrying MORE than t flips: nothing is asked of them, but they must not disturb other rows
        mixed = B >= 2 and not same and rng.random() < 0.2
        for r_ in range(B):
            row = []
            for _ in range(b):
                w = t if rng.random() < 0.6 else rng.randrange(0, t + 1)
                if mixed and rng.random() < 0.35 and t + 1 <= n:
                    w = rng.randrange(t + 1, min(n, 2 * t + 3) + 1)
                    if r_ not in over:
                        over.append(r_)
                p = _pattern(rng, n, w, enc, spec)
                if same and first is not None:
                    p = first
                first = first or p
                row.append(p)
            pats.append(row)
        case["plan"] = {"kind": "flips", "patterns": pats, "t": t, "over_budget_rows": over}
    elif pk == "bsc":
        p = rng.choice([0.5 * max(t, 0.3) / n, max(t, 0.5) / n, 0.02])
        case["plan"] = {"kind": "bsc", "p": round(p, 5), "torch_seed": rng.randrange(1 << 31), "t": t}
    else:
        dmin = linksim.constellation_dmin(m)
        if dmin is None or dmin <= 0:
            case["plan"] = {"kind": "ideal"}
        elif pk == "displace":
            case["plan"] = {"kind": "displace", "rho": round(rng.choice([0.3, 0.7, 0.9, 0.98, rng.uniform(0.05, 0.98)]), 4), "dmin": dmin, "angle_seed": rng.randrange(1 << 31)}
        else:
            z = rng.choice([3.5, 4.5, 6.0])
            sigma = dmin / 2.0 / z
            cplx = mod["scheme"] not in ("pam",) and not (mod["scheme"] == "bpsk" and not mod.get("complex_output", True))
            case["plan"] = {"kind": "awgn", "noise_power": sigma * sigma * (2 if cplx else 1), "dmin": dmin, "torch_seed": rng.randrange(1 << 31)}
    if soft:
        # The demodulator's noise_var only scales the LLRs.  It is set so that the weakest LLR of an in-budget
        # run is llr_floor: |LLR| >= d_min^2 (1 - rho) / noise_var for a displacement of rho * d_min / 2.
        # (With an arbitrary noise_var the LLRs of a 64-bit polar block were ~1e-3, and the sum-product check
        # combination underflowed to exactly 0 in float32 after five levels: a numerical regime the property
        # does not speak about.  DESIGN §13.)
        pl = case["plan"]
        dm = linksim.constellation_dmin(m) or 1.0
        if pl["kind"] == "displace":
            case["noise_var"] = dm * dm * (1.0 - pl["rho"]) / llr_floor
        elif pl["kind"] == "awgn":
            case["noise_var"] = pl["noise_power"]  # matched to the channel; in-budget means displacement < 0.9 d_min/2 here
            pl["soft_budget"] = 0.9
        else:
            case["noise_var"] = dm * dm / llr_floor
        # the noise variance may be handed over as a float, a 0-dim tensor, or - when it is about one or more - a whole number
        # (Python int or integer tensor); rounding it changes the LLR scale by at most a third
        r_nv = rng.random()
        if case["noise_var"] >= 0.75 and r_nv < 0.2:
            case["noise_var"] = float(max(1, round(case["noise_var"])))
            case["nv_form"] = rng.choice(["int", "int_tensor"])
        elif r_nv < 0.35:
            case["nv_form"] = "tensor"
    return case


def code_name(spec):
    parts = [spec["family"]]
    for k in ("mu", "delta", "extended", "n", "k", "r", "m", "g", "N", "information_set"):
        if k in spec:
            v = spec[k]
            parts.append(f"{k}={'custom' if isinstance(v, list) else v}")
    return "(" + ",".join(parts) + ")"


def execute(case: dict) -> RunResult:
    log = EventLog()
    res = RunResult()
    log.add("case", {k: v for k, v in case.items()})
    if "inadmissible" in case:
        res.inadmissible = True
        res.probes["inadmissible." + case["code"]["family"]] += 1
        res.digest, res.n_events = log.digest(), len(log)
        return res
    spec, dk = case["code"], case["decoder"]
    plan = case["plan"]
    multi = case["b"] > 1

    def violate(kind, msg):
        sig = {"component": C.DECODER_CLASS[dk], "encoder": C.ENCODER_CLASS[spec["family"]], "modulation": case["mod"]["scheme"], "soft": case["soft"],
               "plan": plan["kind"], "kind": kind, "layout": "multi_block_rows" if multi else "one_block_per_row"}
        if case.get("one_d"):
            sig["layout"] = "unbatched_word_of_at_most_4_bits" if C.build_encoder(spec).code_length * case["b"] <= 4 else "unbatched_word"
        if spec.get("information_set") is not None:
            sig["information_set"] = spec["information_set"] if isinstance(spec["information_set"], str) else "custom"
        res.violations.append(Violation(sig, f"C09: code {code_name(spec)} (advertised d={case.get('advertised_d')}) + {C.DECODER_CLASS[dk]}{case.get('dec_opts') or ''} over {C.mod_name(case['mod'])}, "
                                             f"{'soft' if case['soft'] else 'hard'}, rows={case['B']} blocks/row={case['b']}, plan={ {k: v for k, v in plan.items() if k != 'patterns'} }: {msg}"))

    try:
        lr = linksim.run_link(case)
    except C.Inadmissible as e:
        res.inadmissible = True
        res.probes["inadmissible.link"] += 1
        log.add("inadmissible", str(e)[:200])
        res.digest, res.n_events = log.digest(), len(log)
        return res
    for kf, v in lr.fired.items():
        res.faults[f"{plan['kind']}.{kf}"] += v
    damaged = sum(lr.fired.values()) > 0 and plan["kind"] != "ideal"
    msg = linksim.case_messages(case)
    log.add("result", {"out": lr.out if lr.exc is None else f"raised {type(lr.exc).__name__}", "in_budget": lr.in_budget, "fired": lr.fired})
    res.probes[f"plan.{plan['kind']}"] += 1
    if plan["kind"] == "ideal":
        res.probes[f"ideal_channel.{plan.get('impl', 'perfect')}"] += 1
        if "messages_gen" in case:
            res.probes["wide_ideal_cases(2^24+ channel uses)"] += 1
    res.probes[f"msg_dtype.{case.get('msg_dtype', 'float32')}"] += 1
    if case.get("warmup_messages"):
        res.faults["history.earlier_calls_on_same_chain"] += len(case["warmup_messages"])
    if case.get("prelude"):
        res.faults["history.sibling_code_built_first"] += 1
    res.probes["soft_runs" if case["soft"] else "hard_runs"] += 1
    if plan["kind"] == "ideal" or not damaged:
        res.probes["zero_fault_runs"] += 1
    else:
        res.nontrivial.append(core.short_hash([spec, dk, case.get("dec_opts"), case["mod"], case["B"], case["b"], core.short_hash(plan), core.short_hash(case["messages"])]))
    if plan["kind"] == "flips":
        wmax = max((len(p) for row in plan["patterns"] for p in row), default=0)
        if wmax == plan["t"] and wmax > 0:
            res.probes["flips.weight_exactly_t"] += 1
    if not lr.in_budget:
        res.probes[f"over_budget.{plan['kind']}"] += 1  # relaxed: nothing is promised
    elif lr.exc is not None and case.get("one_d"):
        res.probes["layout_rejected.unbatched_word"] += 1
    elif lr.exc is not None and case.get("msg_dtype", "float32") != "float32":
        res.probes[f"rejected_dtype.{case['msg_dtype']}"] += 1  # a dtype may be rejected; it may not be answered wrongly
    elif lr.exc is not None:
        if multi:
            res.probes["layout_rejected.multi_block_rows"] += 1
            res.probes[f"layout_rejected.{C.DECODER_CLASS[dk]}"] += 1
        else:
            violate(f"exception:{type(lr.exc).__name__}@{lr.exc_stage}", f"the link raised {type(lr.exc).__name__}: {str(lr.exc)[:160]} (in stage: {lr.exc_stage})")
    else:
        out = lr.out
        if case.get("one_d") and isinstance(out, torch.Tensor) and out.dim() == 1:
            out = out.unsqueeze(0)
            res.probes["layout.unbatched_word"] += 1
        if not isinstance(out, torch.Tensor):
            violate("not_a_tensor", f"the link returned {type(out).__name__}")
        elif list(out.shape) != list(msg.shape):
            violate("shape", f"returned shape {list(out.shape)}, sent {list(msg.shape)}")
        else:
            neq = out.to(torch.float64) != msg.to(torch.float64)
            overrows = list(plan.get("over_budget_rows") or []) + list(lr.over_rows)
            if overrows:
                neq[overrows] = False  # more than t flips in that row: nothing is promised for it
                res.faults["flips.over_budget_rows_mixed_in"] += len(overrows)
            if case["B"] > 64:
                res.probes["huge_batch_cases"] += 1
        if isinstance(out, torch.Tensor) and list(out.shape) == list(msg.shape) and bool(neq.any()):
            bad = neq.nonzero()
            violate("mismatch", f"delivered message differs from the sent one in {bad.shape[0]} of {msg.numel()} bits (first at {bad[0].tolist()})")
    res.digest, res.n_events = log.digest(), len(log)
    return res


def shrink_key(sig):
    return (sig.get("component"), sig.get("encoder"), sig.get("kind"), sig.get("plan"), sig.get("soft"))


def shrink_candidates(case: dict):
    if "inadmissible" in case:
        return
    if "messages_gen" in case:
        g = case["messages_gen"]
        for rows in (g["rows"] // 2, g["rows"] - 1):  # fewer rows of the same generated batch; nothing else is varied
            if rows >= 1:
                c = copy.deepcopy(case)
                c["messages_gen"]["rows"] = c["B"] = rows
                yield c
        return
    k_total = len(case["messages"][0])
    if case["B"] > 1:
        for r in range(case["B"]):
            c = copy.deepcopy(case)
            c["B"] -= 1
            c["messages"].pop(r)
            if c["plan"]["kind"] == "flips":
                c["plan"]["patterns"].pop(r)
            yield c
    if any(any(row) for row in case["messages"]):
        c = copy.deepcopy(case)
        c["messages"] = [[0] * k_total for _ in case["messages"]]
        yield c
    if case["plan"]["kind"] == "flips":
        pats = case["plan"]["patterns"]
        for r, row in enumerate(pats):
            for bi, p in enumerate(row):
                for j in range(len(p)):
                    c = copy.deepcopy(case)
                    c["plan"]["patterns"][r][bi] = p[:j] + p[j + 1:]
                    yield c
    if case["plan"]["kind"] == "displace" and case["plan"]["rho"] > 0.3:
        c = copy.deepcopy(case)
        c["plan"]["rho"] = 0.3
        yield c
    if case.get("via_registry"):
        c = copy.deepcopy(case)
        c["via_registry"] = False
        yield c
    for key in ("warmup_messages", "prelude"):
        if case.get(key):
            c = copy.deepcopy(case)
            del c[key]
            yield c
    if case.get("warmup_messages") and len(case["warmup_messages"]) > 1:
        for i in range(len(case["warmup_messages"])):
            c = copy.deepcopy(case)
            c["warmup_messages"].pop(i)
            yield c


def sample_of(case):
    return case


if __name__ == "__main__":
    from sim import runner

    sys.exit(runner.main(sys.modules[__name__]))
