#!/venv/bin/python
"""C20 — per-sample components are pure: batch result equals the stack of single results.

Engine E3 `histsim`: a batching layer (the thing the simulator owns) sits in front of ONE
shared component instance and issues a seeded history of calls — singletons, batches of any
subset of a small sample pool in any order, layouts (n,), (B,n), (B1,B2,n), (B,b*n), repeats,
interleaved with the same calls on a fresh instance.  Oracle (answer-set rule): every
evaluation that did not raise contributes, for each sample it contained, that sample's slice of
the output; all answers collected for one sample over the whole history must be equal.  Inputs
are cloned before and compared after every call.
"""

from __future__ import annotations

import os
import sys

sys.path.insert(0, os.path.dirname(os.path.dirname(os.path.abspath(__file__))))
sys.path.insert(0, os.path.dirname(os.path.abspath(__file__)))

import contextlib
import copy
import io
import math

import torch

from sim import catalogue as C
from sim import core
from sim.core import EventLog, RunResult, Violation
from sim.shrink import list_ddmin

from checks_common import code_name

PROPERTY = "C20"
ENGINE = "histsim"
LEVEL = "exploration"
TIERS = {
    "quick": {"runs": 5000, "budget_s": 420, "chunk": 80},
    "thorough": {"runs": 300000, "budget_s": 3300, "chunk": 400},
}
SELFTEST_N = 64
RULE = (
    "one case = (component spec [encoder | hard/soft decoder | memoryless modulator | demodulator hard/soft | total/average/PAPR/per-antenna constraint], "
    "pool of 2-6 explicit samples incl. special members [zero-syndrome word, word at distance exactly t, all-zero signal, equidistant received words for hard decoders], history of calls "
    "[members in order, layout, shared|fresh instance]); generated from run_seed=H(C20,VERIF_SEED,index). Distinct = hash of the whole case. "
    "Non-trivial = some sample has >= 2 successful evaluations in different contexts (batch, position, layout, instance or call index)."
)
ASSUMPTIONS = [
    "answer-set rule: no layout is privileged; an evaluation may raise instead (unsupported layout) and then contributes nothing",
    "bit outputs compared exactly, float outputs with rtol 1e-4 / atol 1e-6 (vectorised and scalar reductions may differ in the last ulp)",
    "admissible layouts per component kind are those in which the meaning of a sample is fixed by the documentation (block components act on the last dimension; power constraints on everything but the first; per-antenna needs (B, A, T))",
    "stateful-by-design modulators (DPSK, OQPSK, pi/4-QPSK) are excluded (handled by C05)",
    "exact ties are generated only where the arithmetic is exact (hard decoders: equidistant words); float-path ties (equal LLR magnitudes, equidistant received points) are decided by last-ulp rounding inside torch kernels and are not generated",
]
COMPONENTS_REAL = ["all block-code encoders", "all hard and soft decoders", "BPSK/QPSK/PSK/QAM/PAM/identity modulators and demodulators (hard and soft)", "TotalPowerConstraint", "AveragePowerConstraint", "PAPRConstraint", "PerAntennaPowerConstraint"]
COMPONENTS_STUB = ["batching / delivery layer in front of the shared instance (simulator-owned)", "InverseEncodeDecoder wrapper"]

MEMORYLESS = ["bpsk", "qpsk", "psk", "psk", "qam", "qam", "pam", "identity"]


# ----------------------------------------------------------------------------- generation


def _gen_component(rng):
    kind = rng.choices(["encoder", "decoder_hard", "decoder_soft", "modulator", "demodulator", "constraint"], weights=[18, 26, 16, 12, 14, 14])[0]
    if kind == "encoder":
        return {"kind": kind, "code": C.gen_code_spec(rng)}
    if kind == "decoder_hard":
        return {"kind": kind, "code": C.gen_code_spec(rng, ["hamming", "hamming", "repetition", "spc", "reed_muller", "cyclic", "bch", "bch", "bch", "golay", "linear", "systematic", "ldpc", "reed_solomon"])}
    if kind == "decoder_soft":
        return {"kind": kind, "code": C.gen_code_spec(rng, ["ldpc", "ldpc", "spc", "reed_muller", "polar", "polar", "hamming", "linear", "systematic"])}
    if kind in ("modulator", "demodulator"):
        comp = {"kind": kind, "mod": C.gen_mod_spec(rng, MEMORYLESS), "via_registry": rng.random() < 0.2}
        if kind == "demodulator":
            comp["soft"] = rng.random() < 0.45
            comp["noise_var"] = round(10 ** rng.uniform(-2, 1), 4)
            # every sample was received at its own SNR: the noise variance is given per batch member
            comp["nv_per_member"] = comp["soft"] and rng.random() < 0.35
        return comp
    c = rng.choice(["total", "average", "papr", "per_antenna"])
    return {"kind": kind, "constraint": c, "value": round(10 ** rng.uniform(-1, 1), 4), "complex": rng.random() < 0.4,
            "n": rng.choice([4, 8, 16, 33]), "antennas": rng.choice([1, 2, 4]), "budget": rng.random() < 0.4}


def gen_case(run_seed: int, index: int, tier: str) -> dict:
    rng = core.rng_for(run_seed)
    comp = _gen_component(rng)
    case = {"comp": comp}
    kind = comp["kind"]
    npool = rng.randrange(2, 7)
    samples = []
    try:
        if kind in ("encoder", "decoder_hard", "decoder_soft"):
            enc = C.private_encoder(comp["code"])
            n, k = enc.code_length, enc.code_dimension
            if kind != "encoder":
                kinds = C.decoder_kinds(comp["code"], enc, kind == "decoder_soft")
                if not kinds:
                    raise C.Inadmissible("no decoder of this kind within the size bounds")
                comp["decoder"] = rng.choice(kinds)
                comp["dec_opts"] = {"precompute": False} if comp["decoder"] == "ml" and rng.random() < 0.25 else {}
                # the documented optional second output: error pattern (hard decoders, Wagner) / soft codeword (BP, min-sum)
                if comp["decoder"] in ("syndrome", "ml", "bm", "wagner") and rng.random() < 0.3:
                    comp["second_output"] = "return_errors"
                elif comp["decoder"] in ("bp", "minsum") and rng.random() < 0.3:
                    comp["second_output"] = "return_soft"
                C.build_decoder(comp["code"], comp["decoder"], comp["dec_opts"])
            d, _ = C.advertised_distance(comp["code"], enc)
            t = (d - 1) // 2 if d else 1
            for _ in range(npool):
                msg = [rng.randrange(2) for _ in range(k)] if rng.random() < 0.85 else [0] * k
                if kind == "encoder":
                    samples.append(msg)
                    continue
                with contextlib.redirect_stdout(io.StringIO()), torch.no_grad():
                    cw = [int(v) for v in (enc(torch.tensor([msg], dtype=torch.float32))[0].round() % 2).tolist()]
                r = rng.random()
                w = 0 if r < 0.25 else (t if r < 0.6 else (rng.randrange(0, t + 1) if r < 0.8 else rng.randrange(0, n + 1)))
                word = list(cw)
                for p in rng.sample(range(n), min(w, n)):
                    word[p] ^= 1
                if kind == "decoder_hard":
                    samples.append(word)
                else:
                    # continuous magnitudes: exact LLR ties are decided by last-ulp rounding inside torch kernels
                    # (SIMD lane vs tail), which no library code controls, so float-path ties are not generated
                    mags = [round(rng.uniform(0.1, 8.0), 7) for _ in range(n)]
                    samples.append([(1 - 2 * b) * m for b, m in zip(word, mags)])
            if kind == "decoder_soft" and rng.random() < 0.12:
                # one received word carries infinitely reliable positions (a noiseless reference row, pinned bits). Nothing is
                # asked about that word itself (inf - inf is undefined); it must not change the answers of its neighbours
                u = rng.randrange(npool)
                for p in rng.sample(range(n), rng.choice([1, 2, n])):
                    samples[u][p] = math.copysign(float("inf"), samples[u][p])
                case["unjudged"] = [u]
            comp["n_in"] = k if kind == "encoder" else n
        elif kind in ("modulator", "demodulator"):
            m, _ = C.build_modem(comp["mod"], comp["via_registry"])  # a fresh pair (modems are never cached by the catalogue)
            bps = 1 if comp["mod"]["scheme"] == "identity" else int(m.bits_per_symbol)
            nsym = rng.choice([1, 2, 3, 4])
            comp["bps"], comp["nsym"] = bps, nsym
            for _ in range(npool):
                bits = [rng.randrange(2) for _ in range(nsym * bps)] if rng.random() < 0.85 else [0] * (nsym * bps)
                if kind == "modulator":
                    samples.append(bits)
                else:
                    with torch.no_grad():
                        sy = m(torch.tensor([bits], dtype=torch.float32))[0]
                    pts = []
                    for v in sy.reshape(-1).tolist():
                        v = complex(v)
                        r = rng.random()
                        if r < 0.5:
                            pass
                        else:
                            v = v + complex(rng.gauss(0, 0.3), rng.gauss(0, 0.3) if comp["mod"]["scheme"] not in ("pam",) else 0.0)
                        pts.append([round(v.real, 6), round(v.imag, 6)])
                    samples.append(pts)
            comp["n_in"] = nsym * bps if kind == "modulator" else nsym
        else:
            n = comp["n"]
            A = comp["antennas"]
            for _ in range(npool):
                r = rng.random()
                scale = 10 ** rng.uniform(-2, 2)
                cnt = n * (A if comp["constraint"] == "per_antenna" else 1) * (2 if comp["complex"] else 1)
                if r < 0.15:
                    vals = [0.0] * cnt
                elif r < 0.3:
                    vals = [round(scale, 5)] * cnt
                else:
                    vals = [round(rng.gauss(0, 1) * scale * (8 if rng.random() < 0.05 else 1), 5) for _ in range(cnt)]
                samples.append(vals)
            comp["n_in"] = n
    except C.Inadmissible as e:
        case["inadmissible"] = str(e)[:300]
        return case
    case["samples"] = samples
    # ---- the call history
    if kind == "constraint":
        layouts = ["single", "batch1", "batch", "batch", "batch"] if comp["constraint"] != "per_antenna" else ["batch1", "batch", "batch"]
    else:
        layouts = ["1d", "2d", "2d", "2d", "3d", "blocks"]
    calls = []
    for _ in range(rng.choice([4, 6, 8, 10, 14])):
        lay = rng.choice(layouts)
        if lay in ("1d", "single", "batch1"):
            members = [rng.randrange(npool)]
        elif lay == "3d":
            b1, b2 = rng.choice([(1, 2), (2, 1), (2, 2), (2, 3), (1, 1)])
            members = [rng.randrange(npool) for _ in range(b1 * b2)]
            lay = f"3d:{b1}x{b2}"
        elif lay == "blocks":
            B, b = rng.choice([(1, 2), (2, 2), (1, 3), (3, 2), (2, 1)])
            members = [rng.randrange(npool) for _ in range(B * b)]
            lay = f"blocks:{B}x{b}"
        else:
            members = [rng.randrange(npool) for _ in range(rng.choice([1, 2, 2, 3, 4, 6, 9, 17]))]
        calls.append({"members": members, "layout": lay, "fresh": rng.random() < 0.12, "noncontig": rng.random() < 0.15,
                      "via": rng.choice([None, None, None, None, "deepcopy", "eval", "train_then_eval"]),
                      # the optional second output is requested call by call; bit inputs arrive in several dtypes
                      "second": bool(comp.get("second_output")) and rng.random() < 0.5,
                      "dtype": rng.choice([None, None, None, "float64", "int32", "int64", "float16", "bfloat16", "uint8"]) if kind in ("encoder", "decoder_hard", "modulator") else None,
                      # a constraint is also called on the same signals in another precision; those calls are part of the history
                      # only (their answers differ by rounding and are not compared), later calls must not be affected by them
                      "history_only_dtype": rng.choice(["bfloat16", "float16", "float64"]) if kind == "constraint" and rng.random() < 0.15 else None,
                      # every row is the same stored word (an expanded view, stride 0): rows must still be treated one by one
                      "expanded": lay in ("2d", "batch") and rng.random() < 0.1})
    if rng.random() < 0.5 and calls:
        calls.append(copy.deepcopy(rng.choice(calls)))  # the same call repeated
    case["calls"] = calls
    return case


# ----------------------------------------------------------------------------- execution


def _component(comp, fresh=False, via=None, base=None):
    """returns (callable tensor->tensor, class name); `via` applies a neutral transformation to the object first"""
    f, name, obj = _component_obj(comp, fresh, obj=base)
    if fresh and isinstance(obj, torch.nn.Module) and base is None:
        try:
            obj = C.private(obj)  # never call a per-process prototype directly
            f, name, obj = _component_obj(comp, obj=obj)
        except Exception:
            pass  # not deep-copyable: _component_obj(fresh=True) already built a new object for the cheap kinds
    if via and isinstance(obj, torch.nn.Module):
        import copy as _copy

        if via == "deepcopy":
            clone = _copy.deepcopy(obj)
            f2, _, _ = _component_obj(comp, fresh, obj=clone)
            return f2, name
        if via == "eval":
            obj.eval()
        elif via == "train_then_eval":
            obj.train()
            obj.eval()
    return f, name


def _component_obj(comp, fresh=False, obj=None):
    kind = comp["kind"]
    if kind == "encoder":
        enc = obj if obj is not None else C.build_encoder(comp["code"])
        return (lambda x, second=False: enc(x)), C.ENCODER_CLASS[comp["code"]["family"]], enc
    if kind in ("decoder_hard", "decoder_soft"):
        dec = obj if obj is not None else C.build_decoder(comp["code"], comp["decoder"], comp.get("dec_opts"), fresh=fresh and comp["decoder"] not in ("syndrome", "ml"))
        if comp.get("second_output"):
            kw = {comp["second_output"]: True}
            return (lambda x, second=False: dec(x, **kw) if second else dec(x)), C.DECODER_CLASS[comp["decoder"]] + f"[{comp['second_output']}]", dec
        return (lambda x, second=False: dec(x)), C.DECODER_CLASS[comp["decoder"]], dec
    if kind == "modulator":
        m = obj if obj is not None else _modem(comp, fresh)[0]
        return (lambda x, second=False: m(x)), type(m).__name__, m
    if kind == "demodulator":
        d = obj if obj is not None else _modem(comp, fresh)[1]
        if comp["soft"]:
            nv0 = comp["noise_var"]
            return (lambda y, second=False, nv=None: d(y, nv0 if nv is None else nv)), type(d).__name__ + "[soft]", d
        return (lambda y, second=False: d(y)), type(d).__name__ + "[hard]", d
    import kaira.constraints as K

    c = comp["constraint"]
    if obj is not None:
        return (lambda x, second=False: obj(x)), type(obj).__name__, obj
    if c == "total":
        obj = K.TotalPowerConstraint(comp["value"])
    elif c == "average":
        obj = K.AveragePowerConstraint(comp["value"])
    elif c == "papr":
        obj = K.PAPRConstraint(max_papr=max(1.2, comp["value"]))
    else:
        if comp["budget"]:
            obj = K.PerAntennaPowerConstraint(power_budget=torch.tensor([comp["value"] * (i + 1) for i in range(comp["antennas"])]))
        else:
            obj = K.PerAntennaPowerConstraint(uniform_power=comp["value"])
    return (lambda x, second=False: obj(x)), type(obj).__name__, obj


_MODEMS = {}


def _modem(comp, fresh):
    key = core.cjson([comp["mod"], comp["via_registry"]])
    if fresh or key not in _MODEMS:
        pair = C.build_modem(comp["mod"], comp["via_registry"])
        pair[0].eval()
        pair[1].eval()
        if fresh:
            return pair
        _MODEMS[key] = pair
    return _MODEMS[key]


def _sample_tensor(comp, s):
    kind = comp["kind"]
    if kind == "demodulator":
        t = torch.tensor(s, dtype=torch.float32)
        c = torch.complex(t[:, 0], t[:, 1])
        sch = comp["mod"]["scheme"]
        if sch == "pam" or (sch == "bpsk" and not comp["mod"].get("complex_output", True)) or sch == "identity":
            return c.real.clone()
        return c
    if kind == "constraint":
        n = comp["n"]
        A = comp["antennas"] if comp["constraint"] == "per_antenna" else None
        t = torch.tensor(s, dtype=torch.float32)
        if comp["complex"]:
            t = t.reshape(-1, 2)
            t = torch.complex(t[:, 0], t[:, 1])
        return t.reshape(A, n) if A else t.reshape(n)
    return torch.tensor(s, dtype=torch.float32)


def _member_nv(comp, m):
    return round(comp["noise_var"] * (1.0, 0.25, 4.0, 10.0, 0.5)[m % 5], 6)


def _assemble(comp, tensors, layout):
    if layout == "1d" or layout == "single":
        return tensors[0]
    if layout == "batch1":
        return tensors[0].unsqueeze(0)
    if layout in ("2d", "batch"):
        return torch.stack(tensors)
    if layout.startswith("3d:"):
        b1, b2 = map(int, layout[3:].split("x"))
        return torch.stack(tensors).reshape(b1, b2, -1)
    if layout.startswith("blocks:"):
        B, b = map(int, layout[7:].split("x"))
        return torch.stack([torch.cat(tensors[r * b:(r + 1) * b], dim=-1) for r in range(B)])
    raise core.HarnessError(layout)


def _split(comp, out, layout, nmembers):
    """per-member slices of the output, or None if the output cannot carry one answer per member"""
    if isinstance(out, tuple) and len(out) == 2 and all(isinstance(o, torch.Tensor) for o in out):
        a, b = _split(comp, out[0], layout, nmembers), _split(comp, out[1], layout, nmembers)
        if a is None or b is None:
            return None
        return [(x, y) for x, y in zip(a, b)]
    if not isinstance(out, torch.Tensor):
        return None
    if layout in ("1d", "single"):
        return [out]
    if layout == "batch1":
        return [out[0]] if out.dim() >= 1 and out.shape[0] == 1 else None
    if layout in ("2d", "batch"):
        return [out[i] for i in range(nmembers)] if out.dim() >= 1 and out.shape[0] == nmembers else None
    if layout.startswith("3d:"):
        b1, b2 = map(int, layout[3:].split("x"))
        if out.dim() != 3 or out.shape[0] != b1 or out.shape[1] != b2:
            return None
        return [out[i, j] for i in range(b1) for j in range(b2)]
    B, b = map(int, layout[7:].split("x"))
    if out.dim() != 2 or out.shape[0] != B or out.shape[1] % b != 0:
        return None
    w = out.shape[1] // b
    return [out[r, j * w:(j + 1) * w] for r in range(B) for j in range(b)]


def _same(a, b, exact):
    if isinstance(a, tuple) or isinstance(b, tuple):
        if not (isinstance(a, tuple) and isinstance(b, tuple)):
            return False
        # first part: decoded bits (exact); second part: error pattern (exact) or soft codeword (float)
        return _same(a[0], b[0], True) and _same(a[1], b[1], not a[1].is_floating_point() or bool((a[1] == a[1].round()).all() and (b[1] == b[1].round()).all()))
    if a.shape != b.shape:
        return False
    if exact:
        return bool(torch.equal(a.to(torch.float64), b.to(torch.float64)))
    a2 = torch.view_as_real(a) if torch.is_complex(a) else a
    b2 = torch.view_as_real(b) if torch.is_complex(b) else b
    return bool(torch.allclose(a2.double(), b2.double(), rtol=1e-4, atol=1e-6, equal_nan=True))


def execute(case: dict) -> RunResult:
    log = EventLog()
    res = RunResult()
    log.add("case", case)
    if "inadmissible" in case:
        res.inadmissible = True
        res.digest, res.n_events = log.digest(), len(log)
        return res
    comp = case["comp"]
    kind = comp["kind"]
    try:
        # hermetic: the case's "shared instance" is a private deep copy of the (never called) per-process prototype,
        # so nothing an earlier case did to an object can leak into this one and the case alone reproduces its outcome
        _, cname, proto = _component_obj(comp)
        if comp["kind"] == "encoder":
            shared = C.private_encoder(comp["code"])
        elif comp["kind"] in ("decoder_hard", "decoder_soft"):
            shared = C.private_decoder(comp["code"], comp["decoder"], comp.get("dec_opts"))
        else:
            shared = C.private(proto)
        fn, _, _ = _component_obj(comp, obj=shared)
    except C.Inadmissible:
        res.inadmissible = True
        res.digest, res.n_events = log.digest(), len(log)
        return res
    exact = kind in ("encoder", "decoder_hard", "decoder_soft") or (kind == "demodulator" and not comp["soft"])
    want_len = None
    if "code" in comp:
        enc_ = C.build_encoder(comp["code"])
        want_len = enc_.code_length if kind == "encoder" else enc_.code_dimension
    elif kind == "modulator":
        want_len = comp["nsym"]
    elif kind == "demodulator":
        want_len = comp["nsym"] * comp["bps"]
    tensors = [_sample_tensor(comp, s) for s in case["samples"]]
    unjudged = set(case.get("unjudged") or [])
    answers = {i: [] for i in range(len(tensors))}  # sample -> [(context, tensor)]
    answers2 = {i: [] for i in range(len(tensors))}  # the optional second outputs, compared among themselves

    def violate(vkind, msg, **extra):
        sig = {"component": cname, "kind": vkind}
        sig.update(extra)
        desc = code_name(comp["code"]) if "code" in comp else (C.mod_name(comp["mod"]) if "mod" in comp else f"{comp['constraint']}={comp['value']}")
        res.violations.append(Violation(sig, f"C20/{cname} {desc}: {msg}"))

    held = []  # results the caller keeps (does not overwrite) while it goes on calling the same component

    for ci, call in enumerate(case["calls"]):
        lay = call["layout"]
        lay_kind = lay.split(":")[0]
        members = call["members"]
        if any(m >= len(tensors) for m in members):
            continue
        if call.get("expanded") and len(members) >= 2:
            members = [members[0]] * len(members)
            x = tensors[members[0]].unsqueeze(0).expand(len(members), *tensors[members[0]].shape)
            res.probes["input.expanded_view"] += 1
        else:
            x = _assemble(comp, [tensors[m] for m in members], lay)
        if call.get("noncontig") and x.dim() >= 3 and ci % 2 and not call.get("expanded"):
            x = x.transpose(0, 1).contiguous().transpose(0, 1)  # same values, the two batch dimensions swapped in memory
            res.probes["input.batch_dims_permuted_in_memory"] += 1
        elif call.get("noncontig") and x.dim() >= 2 and not call.get("expanded"):
            x = x.transpose(0, -1).contiguous().transpose(0, -1)  # same values, non-contiguous memory
            res.probes["input.noncontiguous"] += 1
        if call.get("dtype"):
            x = x.to({"float64": torch.float64, "int32": torch.int32, "int64": torch.int64, "float16": torch.float16, "bfloat16": torch.bfloat16, "uint8": torch.uint8}[call["dtype"]])
            res.probes[f"input.dtype_{call['dtype']}"] += 1
        if call.get("history_only_dtype"):
            hd = {"bfloat16": torch.bfloat16, "float16": torch.float16, "float64": torch.float64}[call["history_only_dtype"]]
            try:
                with torch.no_grad():
                    fn(x.to(torch.complex64 if (torch.is_complex(x) and hd != torch.float64) else (torch.complex128 if torch.is_complex(x) else hd)))
                res.faults["history.call_in_another_precision"] += 1
            except Exception:
                res.probes["rejected.other_precision"] += 1
            continue
        x0 = x.clone()
        f = fn
        if call["fresh"]:
            try:
                f, _ = _component(comp, fresh=True)
                res.faults["history.fresh_instance"] += 1
            except C.Inadmissible:
                continue
        elif call.get("via"):
            try:
                f, _ = _component(comp, via=call["via"], base=shared)
                res.faults[f"history.{call['via']}"] += 1
            except Exception:
                f = fn
        kw = {}
        if comp.get("nv_per_member"):
            nvs = [_member_nv(comp, m) for m in members]
            if lay_kind in ("1d", "single"):
                kw["nv"] = nvs[0] if ci % 2 else torch.tensor(nvs[0])
            elif lay_kind in ("batch1", "2d", "batch"):
                kw["nv"] = torch.tensor(nvs, dtype=torch.float32).reshape(-1, 1)
            elif lay_kind == "3d":
                b1_, b2_ = map(int, lay[3:].split("x"))
                kw["nv"] = torch.tensor(nvs, dtype=torch.float32).reshape(b1_, b2_, 1)
            else:  # several blocks per row: one value per symbol position
                B_, b_ = map(int, lay[7:].split("x"))
                kw["nv"] = torch.tensor(nvs, dtype=torch.float32).reshape(B_, b_, 1).expand(B_, b_, comp["nsym"]).reshape(B_, -1).contiguous()
            res.probes["noise_var.per_member"] += 1
        try:
            with torch.no_grad(), contextlib.redirect_stdout(io.StringIO()):
                out = f(x, second=bool(call.get("second")), **kw)
        except Exception as e:
            log.add("call", {"i": ci, "layout": lay, "members": members, "raised": type(e).__name__})
            res.probes[f"rejected.{lay_kind}"] += 1
            if not torch.equal(x, x0):
                violate("input_modified", f"call {ci} ({lay}, members {members}) raised and left its input tensor modified", layout=lay_kind)
            continue
        log.add("call", {"i": ci, "layout": lay, "members": members, "out": out})
        res.faults[f"delivery.{lay_kind}"] += 1
        for cj, lk_, t_, snap_ in held:
            if t_.shape != snap_.shape or not bool(((t_ == snap_) | ((t_ != t_) & (snap_ != snap_))).all()):
                violate("earlier_result_changed", f"the tensor returned by call {cj} ({lk_}), which the caller still holds, was changed by call {ci} ({lay}, members {members})", layout=lay_kind)
                held = []
                break
        if not torch.equal(x, x0):
            violate("input_modified", f"call {ci} ({lay}, members {members}) modified its input tensor", layout=lay_kind)
        if isinstance(out, tuple) != bool(call.get("second")):
            violate("second_output_form", f"call {ci} ({lay}, members {members}) {'did not request' if not call.get('second') else 'requested'} the optional second output but the component returned {'a tuple' if isinstance(out, tuple) else type(out).__name__}", layout=lay_kind)
            continue
        parts = _split(comp, out, lay, len(members))
        if parts is None:
            violate("output_layout", f"call {ci} ({lay}, members {members}, input shape {list(x.shape)}) returned shape {list(getattr(out, 'shape', []))}, which cannot hold one answer per member", layout=lay_kind)
            continue
        firsts = [p_[0] if isinstance(p_, tuple) else p_ for p_ in parts]
        if want_len is not None and any(p_.dim() != 1 or p_.shape[0] != want_len for p_ in firsts):
            oshape = list(out[0].shape) if isinstance(out, tuple) else list(out.shape)
            violate("output_dim", f"call {ci} ({lay}, members {members}, input shape {list(x.shape)}) returned shape {oshape}: {firsts[0].shape[-1] if firsts[0].dim() else 0} values per sample instead of {want_len}", layout=lay_kind)
            continue
        for pos, (m, part) in enumerate(zip(members, parts)):
            if m in unjudged:
                res.faults["delivery.neighbour_with_non_finite_values"] += 1
                continue
            ctxd = {"call": ci, "layout": lay_kind, "pos": pos, "batch": len(members), "fresh": call["fresh"], "dtype": call.get("dtype")}
            if isinstance(part, tuple):  # (decoded, second output): the first part joins the common answer set
                answers[m].append((ctxd, part[0].clone()))
                answers2[m].append((ctxd, part[1].clone()))
            else:
                answers[m].append((ctxd, part.clone()))
        # the caller owns what was returned: it may keep it while it goes on calling (every third call), or overwrite it in place;
        # neither may interact with the component's later answers
        if ci % 3 == 1:
            for o_ in (out if isinstance(out, tuple) else (out,)):
                if isinstance(o_, torch.Tensor) and o_.numel():
                    held.append((ci, lay_kind, o_, o_.clone()))
            res.probes["output.kept_by_caller"] += 1
            continue
        for o_ in (out if isinstance(out, tuple) else (out,)):
            if isinstance(o_, torch.Tensor) and o_.numel() and o_.data_ptr() != x.data_ptr():
                try:
                    with torch.no_grad():
                        o_.mul_(0).add_(3)
                    res.probes["output.overwritten_by_caller"] += 1
                except Exception:
                    pass
    nontrivial = False
    for m, lst in answers.items():
        if len(lst) >= 2:
            nontrivial = True
            ref_ctx, ref = lst[0]
            for ctx, a in lst[1:]:
                if not _same(ref, a, exact):
                    pair = "|".join(sorted({ref_ctx["layout"], ctx["layout"]}))
                    if isinstance(a, tuple) or isinstance(ref, tuple):
                        diff = "the (decoded, second output) pairs differ"
                    else:
                        diff = "shapes differ" if a.shape != ref.shape else f"{int((a != ref).sum())} of {a.numel()} values differ"
                    violate("answers_differ", f"sample {m} answered differently in two evaluations: {ref_ctx} vs {ctx}: {diff}; sample = {case['samples'][m] if len(case['samples'][m]) <= 40 else str(case['samples'][m][:40]) + '...'}", layouts=pair)
                    break
    for m, lst in answers2.items():
        if len(lst) >= 2:
            ref_ctx, ref = lst[0]
            for ctx, a in lst[1:]:
                exact2 = not a.is_floating_point() or bool((a == a.round()).all() and (ref == ref.round()).all())
                if exact2:
                    ok2 = _same(ref, a, True)
                else:
                    # soft codeword of an iterative decoder: ten rounds of tanh/arctanh amplify last-ulp differences
                    # between differently vectorised evaluations to ~1e-3 relative (seen in a 300 000-run soak on the
                    # unchanged tree), so the soft values are compared to 2 % + 0.02; a leak between batch members
                    # moves them by order one
                    ok2 = a.shape == ref.shape and bool(((a.double() - ref.double()).abs() <= 0.02 * torch.maximum(a.double().abs(), ref.double().abs()) + 0.02).all())
                if not ok2:
                    violate("second_outputs_differ", f"sample {m}: the optional second output differs between two evaluations: {ref_ctx} vs {ctx}", layouts="|".join(sorted({ref_ctx["layout"], ctx["layout"]})))
                    break
    if nontrivial:
        res.nontrivial.append(core.short_hash(case))
    res.probes[f"kind.{kind}"] += 1
    if comp.get("second_output"):
        res.probes[f"second_output.{comp['second_output']}.answers"] += sum(len(v) for v in answers2.values())
    res.digest, res.n_events = log.digest(), len(log)
    return res


# ----------------------------------------------------------------------------- shrinking


def shrink_key(sig):
    return (sig.get("component"), sig.get("kind"))


def shrink_candidates(case: dict):
    if "inadmissible" in case:
        return
    for cand in list_ddmin(case["calls"]):
        if len(cand) >= 1:
            c = copy.deepcopy(case)
            c["calls"] = copy.deepcopy(cand)
            yield c
    for i, call in enumerate(case["calls"]):
        if call["fresh"]:
            c = copy.deepcopy(case)
            c["calls"][i]["fresh"] = False
            yield c
        if call["layout"] in ("2d", "batch") and len(call["members"]) > 1:
            for j in range(len(call["members"])):
                c = copy.deepcopy(case)
                c["calls"][i]["members"] = call["members"][:j] + call["members"][j + 1:]
                yield c


def sample_of(case):
    c = copy.deepcopy(case)
    if "samples" in c:
        c["samples"] = [s if len(s) <= 24 else s[:24] + ["..."] for s in c["samples"][:3]]
    return c


if __name__ == "__main__":
    from sim import runner

    sys.exit(runner.main(sys.modules[__name__]))
