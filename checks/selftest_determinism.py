#!/venv/bin/python
"""Determinism self-test (DESIGN §2.6).

For every check module present: N run indices are executed
  (a) twice in this process,
  (b) in a fresh interpreter with another PYTHONHASHSEED and 3 workers,
  (c) in a fresh interpreter with yet another PYTHONHASHSEED and 16 workers,
and all digests per index must be identical.  Exit 0 iff so; 2 otherwise (harness failure).
"""

from __future__ import annotations

import os
import sys

HERE = os.path.dirname(os.path.abspath(__file__))
sys.path.insert(0, os.path.dirname(HERE))
os.environ.setdefault("OMP_NUM_THREADS", "1")
os.environ.setdefault("MKL_NUM_THREADS", "1")

import argparse
import importlib.util
import json
import subprocess
import tempfile
import time

ENGINES = ["c17", "c16", "c12", "c07", "c13", "c05", "c20", "c09", "c02"]


def load(name):
    path = os.path.join(HERE, f"{name}.py")
    spec = importlib.util.spec_from_file_location(f"chk_{name}", path)
    mod = importlib.util.module_from_spec(spec)
    spec.loader.exec_module(mod)
    return mod


def main() -> int:
    ap = argparse.ArgumentParser()
    ap.add_argument("--quick", action="store_true")
    ap.add_argument("--n", type=int)
    ap.add_argument("--only")
    a = ap.parse_args()
    t0 = time.time()
    names = [n for n in ENGINES if os.path.exists(os.path.join(HERE, f"{n}.py"))]
    if a.only:
        names = [n for n in names if n in a.only.split(",")]
    seed = int(os.environ.get("VERIF_SEED", "0"))
    tmpdir = tempfile.mkdtemp(prefix="verif-selftest-", dir="/var/tmp")
    procs = []
    counts = {}
    for name in names:
        mod = load(name)
        n = a.n or (getattr(mod, "SELFTEST_N", 64) if a.quick else getattr(mod, "SELFTEST_N_THOROUGH", 1024))
        counts[name] = n
        for tag, hs, w in (("b", "424242", 3), ("c", "7", 16)):
            out = os.path.join(tmpdir, f"{name}.{tag}.json")
            env = dict(os.environ, PYTHONHASHSEED=hs)
            p = subprocess.Popen([sys.executable, os.path.join(HERE, f"{name}.py"), "--tier", "quick", "--runs", str(n), "--workers", str(w),
                                  "--digests-out", out, "--no-evidence", "--seed", str(seed)], env=env, stdout=subprocess.PIPE, stderr=subprocess.STDOUT, text=True)
            procs.append((name, tag, out, p))
    # (a) in-process, twice
    import torch

    torch.set_num_threads(1)
    from sim import core

    local = {}
    bad = 0
    for name in names:
        mod = load(name)
        if hasattr(mod, "warmup"):
            mod.warmup()
        d1, d2 = {}, {}
        for d in (d1, d2):
            for i in range(counts[name]):
                rs = core.derive_seed(mod.PROPERTY, seed, i)
                d[str(i)] = mod.execute(mod.gen_case(rs, i, "quick")).digest
        diff = [i for i in d1 if d1[i] != d2[i]]
        if diff:
            print(f"NONDETERMINISM {name}: {len(diff)} of {len(d1)} indices differ between two in-process runs, e.g. index {diff[0]}")
            bad += 1
        local[name] = d1
    for name, tag, out, p in procs:
        try:
            stdout, _ = p.communicate(timeout=1500)
        except subprocess.TimeoutExpired:
            p.kill()
            print(f"SELFTEST-FAIL {name}/{tag}: timeout")
            bad += 1
            continue
        if p.returncode not in (0, 1) or not os.path.exists(out):
            print(f"SELFTEST-FAIL {name}/{tag}: exit {p.returncode}\n{stdout[-2000:]}")
            bad += 1
            continue
        other = json.load(open(out))
        os.remove(out)
        diff = [i for i in local[name] if other.get(i) != local[name][i]]
        if diff:
            print(f"NONDETERMINISM {name}/{tag}: {len(diff)} of {len(local[name])} digests differ from the in-process run (fresh interpreter, other PYTHONHASHSEED / worker count), e.g. index {diff[0]}")
            bad += 1
    try:
        os.rmdir(tmpdir)
    except OSError:
        pass
    total = sum(counts.values())
    print(f"determinism self-test: engines={names} indices={total} x4 executions each, failures={bad}, {time.time() - t0:.1f}s")
    return 2 if bad else 0


if __name__ == "__main__":
    sys.exit(main())
