#!/venv/bin/python
"""C02 — hard-decision decoders correct every error pattern within advertised capability.

Engine E2 `linksim` in its modulation-free configuration: encoder -> identity modem -> fault
channel -> decoder inside the real ChannelCodeModel.  The simulator owns the channel: it places
exactly-w bit flips per block (w <= advertised t, all placement kinds) for clause 1, and
replaces the block by an arbitrary received word for clause 2 (complete decoders), where the
oracle is deliberately narrow: the returned message's codeword must be at minimum Hamming
distance from the received word (reference: codebook enumeration), whichever nearest it is.
"""

from __future__ import annotations

import os
import sys

sys.path.insert(0, os.path.dirname(os.path.dirname(os.path.abspath(__file__))))
sys.path.insert(0, os.path.dirname(os.path.abspath(__file__)))

import copy

import torch

from sim import catalogue as C
from sim import core, linksim
from sim.core import EventLog, RunResult, Violation

from checks_common import code_name

PROPERTY = "C02"
ENGINE = "linksim"
LEVEL = "exploration"
TIERS = {
    "quick": {"runs": 7000, "budget_s": 420, "chunk": 100},
    "thorough": {"runs": 500000, "budget_s": 3300, "chunk": 500},
}
SELFTEST_N = 64
RULE = (
    "one case = (code spec, hard decoder kind, rows, explicit messages, fault plan [flips: explicit positions, weight w <= advertised t | arbitrary: explicit "
    "received words]); generated from run_seed=H(C02,VERIF_SEED,index); for codes with n <= 15 the run index also walks message and pattern numbers. "
    "Distinct = hash of (code, decoder, messages, plan). Non-trivial = at least one bit actually flipped (clause 1) or a received word that is not a codeword (clause 2)."
)
ASSUMPTIONS = [
    "t = floor((d-1)/2) with d as advertised by the code object; families advertising nothing (generic linear, systematic, LDPC) take part in clause 2 only",
    "clause 2 reference: exhaustive codebook (k <= 12) obtained by encoding every message with the real encoder; only the *distance* of the answer is judged",
    "one code block per row (the layout every decoder documents)",
]
COMPONENTS_REAL = ["ChannelCodeModel", "IdentityModulator/IdentityDemodulator", "IdentityConstraint", "all block-code encoders", "SyndromeLookupDecoder", "BruteForceMLDecoder", "BerlekampMasseyDecoder", "ReedMullerDecoder(hard)", "HammingCodeEncoder.inverse_encode", "ReedMullerCodeEncoder.inverse_encode"]
COMPONENTS_STUB = ["FaultChannel (harness injector)", "TapModulator/TapDemodulator", "InverseEncodeDecoder wrapper", "reference codebook / minimum-distance calculator"]

FAMILIES = ["hamming", "hamming", "repetition", "spc", "reed_muller", "cyclic", "bch", "bch", "bch", "golay", "reed_solomon", "linear", "systematic", "ldpc"]


def _unrank_pattern(n, w, idx):
    """idx-th w-subset of range(n) in colex order (deterministic walk over all patterns)."""
    from math import comb

    out = []
    idx %= comb(n, w) if w > 0 else 1
    for j in range(w, 0, -1):
        c = j - 1
        while comb(c + 1, j) <= idx:
            c += 1
        out.append(c)
        idx -= comb(c, j)
    return sorted(out)


def gen_case(run_seed: int, index: int, tier: str) -> dict:
    rng = core.rng_for(run_seed)
    spec = C.gen_code_spec(rng, FAMILIES)
    if index % 3000 == 9:  # the very large batch of this stretch of runs needs a code with k >= 10 and an ML decoder
        spec = rng.choice([{"family": "golay", "extended": False, "information_set": "left"}, {"family": "hamming", "mu": 4, "extended": False, "information_set": "left"}])
    case = {"code": spec, "soft": False, "mod": {"scheme": "identity"}, "b": 1}
    try:
        enc = C.build_encoder(spec)
        kinds = C.decoder_kinds(spec, enc, False)
        if not kinds:
            raise C.Inadmissible("no hard decoder for this family within the size bounds")
        d, dsrc = C.advertised_distance(spec, enc)
        t = (d - 1) // 2 if d else None
        clause2_kinds = [k for k in kinds if k in C.COMPLETE_DECODERS and enc.code_dimension <= 12]
        if t is None:
            if not clause2_kinds:
                raise C.Inadmissible("family advertises no distance and has no complete decoder within the size bounds")
            clause = 2
        else:
            clause = 2 if (clause2_kinds and rng.random() < 0.3) else 1
        dk = rng.choice(clause2_kinds if clause == 2 else kinds)
        opts = {"precompute": False} if dk == "ml" and rng.random() < 0.3 else {}
        C.build_decoder(spec, dk, opts)
    except C.Inadmissible as e:
        case["inadmissible"] = str(e)[:300]
        return case
    n, k = enc.code_length, enc.code_dimension
    case.update({"decoder": dk, "dec_opts": opts, "advertised_d": d, "d_source": dsrc, "clause": clause})
    B = rng.choice([1, 1, 2, 3, 4, 4, 8])
    rB = rng.random()
    if rB < 0.13:
        # medium-sized batches: just above small powers of two (10 %), hundreds to thousands of rows (3 %); bounded so that a
        # codebook-vs-batch comparison (2^k x B x n) stays below ~0.5 GB
        B = rng.randrange(9, 71) if rB < 0.10 else rng.choice([100, 257, 1000, 2100, 2100, 4100])
        B = min(B, max(12, (1 << 27) // ((1 << min(k, 20)) * n)) - 3)
    huge = index % 3000 == 9 and "ml" in kinds and t is not None and k >= 10
    if huge:  # one very large batch per 3000 runs: more rows than 2**24 / 2**k
        dk, opts, clause = "ml", {}, 1
        case.update({"decoder": dk, "dec_opts": opts, "clause": clause})
        B = (1 << 24) // (1 << k) + rng.choice([3, 4, 37])
    case["B"] = B
    # hard bits arrive in whatever dtype the caller keeps them in (a dtype may be rejected, never answered wrongly)
    case["msg_dtype"] = rng.choice(["float32", "float32", "float32", "float64", "int64", "int32", "uint8", "int8", "float16", "bfloat16"])
    walk = n <= 15 and rng.random() < 0.5  # deterministic walk over messages / patterns of small codes
    msgs = []
    for r in range(B):
        if walk and k <= 12:
            v = (index * 7 + r) % (1 << k)
            msgs.append([(v >> (k - 1 - j)) & 1 for j in range(k)])
        else:
            msgs.append([rng.randrange(2) for _ in range(k)])
    same = B >= 2 and not huge and rng.random() < 0.12
    if same:  # every row carries the same word and the same damage; the receiver hands the rows on as one broadcast row
        case["shared_rows"] = True
        msgs = [list(msgs[0]) for _ in range(B)]
    case["messages"] = msgs
    if B == 1 and not huge and rng.random() < 0.15:
        case["one_d"] = True  # a single unbatched word (k,): a layout a component may reject, never answer wrongly
    if rng.random() < 0.25 and not huge:
        case["warmup_messages"] = [[[rng.randrange(2) for _ in range(k)] for _ in range(1 if case.get("one_d") else rng.choice([1, 2, 3]))] for _ in range(rng.choice([1, 2, 4]))]
        if rng.random() < 0.4:  # the very messages of the judged call have been sent before (over the undisturbed channel)
            case["warmup_messages"].insert(rng.randrange(len(case["warmup_messages"]) + 1), [list(r_) for r_ in msgs])
    if rng.random() < 0.15:  # a similar code (same encoder class, same n and k) was set up earlier in the process
        sib = C.sibling_spec(rng, spec)
        if sib is not None:
            case["prelude"] = sib
    if clause == 1:
        pats = []
        over = []  # rows that carry MORE than t flips: nothing is asked of them, but they must not disturb the other rows
        mixed = B >= 2 and rng.random() < 0.25
        for r in range(B):
            w = t if rng.random() < 0.55 else rng.randrange(0, t + 1)
            if mixed and rng.random() < 0.4 and t + 1 <= n:
                w = rng.randrange(t + 1, min(n, 2 * t + 3) + 1)
                over.append(r)
            if walk and w > 0:
                p = _unrank_pattern(n, w, index * 13 + r)
            else:
                kind = rng.choice(["uniform", "uniform", "burst", "head", "tail"])
                if w == 0:
                    p = []
                elif kind == "burst":
                    s = rng.randrange(0, n - w + 1)
                    p = list(range(s, s + w))
                elif kind == "head":
                    p = list(range(w))
                elif kind == "tail":
                    p = list(range(n - w, n))
                else:
                    p = sorted(rng.sample(range(n), w))
            pats.append([p])
        if same:
            keep = next((r for r in range(B) if r not in over), 0)
            pats, over = [[list(pats[keep][0])] for _ in range(B)], ([] if keep not in over else list(range(B)))
        case["plan"] = {"kind": "flips", "patterns": pats, "t": t, "over_budget_rows": over}
    else:
        words = []
        for r in range(B):
            if walk and n <= 12:
                v = (index * 11 + r * 5) % (1 << n)
                words.append([(v >> (n - 1 - j)) & 1 for j in range(n)])
            else:
                words.append([rng.randrange(2) for _ in range(n)])
        if same:
            words = [list(words[0]) for _ in range(B)]
        case["plan"] = {"kind": "arbitrary", "words": words}
    return case


def execute(case: dict) -> RunResult:
    log = EventLog()
    res = RunResult()
    log.add("case", case)
    if "inadmissible" in case:
        res.inadmissible = True
        res.probes["inadmissible." + case["code"]["family"]] += 1
        res.digest, res.n_events = log.digest(), len(log)
        return res
    spec, dk, plan = case["code"], case["decoder"], case["plan"]
    def violate(kind, msg):
        sig = {"component": C.DECODER_CLASS[dk], "encoder": C.ENCODER_CLASS[spec["family"]], "clause": case["clause"], "kind": kind}
        if spec.get("information_set") is not None:
            sig["information_set"] = spec["information_set"] if isinstance(spec["information_set"], str) else "custom"
        res.violations.append(Violation(sig, f"C02 clause {case['clause']}: code {code_name(spec)} (advertised d={case.get('advertised_d')} from {case.get('d_source')}) + {C.DECODER_CLASS[dk]}, rows={case['B']}: {msg}"))

    try:
        lr = linksim.run_link(case)
    except C.Inadmissible as e:
        res.inadmissible = True
        log.add("inadmissible", str(e)[:200])
        res.digest, res.n_events = log.digest(), len(log)
        return res
    for kf, v in lr.fired.items():
        res.faults[f"{plan['kind']}.{kf}"] += v
    msg = torch.tensor(case["messages"], dtype=torch.float32)
    log.add("result", {"out": lr.out if lr.exc is None else f"raised {type(lr.exc).__name__}", "fired": lr.fired})
    res.probes[f"msg_dtype.{case.get('msg_dtype', 'float32')}"] += 1
    if lr.tap_demod is not None and lr.tap_demod.shared_rows:
        res.probes["layout.rows_share_memory"] += 1
        res.faults["receiver.rows_handed_on_as_one_broadcast_row"] += 1
    if lr.exc is not None and case.get("one_d"):
        res.probes["layout_rejected.unbatched_word"] += 1
        res.digest, res.n_events = log.digest(), len(log)
        return res
    if case.get("one_d") and isinstance(lr.out, torch.Tensor) and lr.out.dim() == 1:
        lr.out = lr.out.unsqueeze(0)
        res.probes["layout.unbatched_word"] += 1
    if lr.exc is not None and case.get("msg_dtype", "float32") != "float32":
        res.probes[f"rejected_dtype.{case['msg_dtype']}"] += 1  # a dtype may be rejected; it may not be answered wrongly
        res.digest, res.n_events = log.digest(), len(log)
        return res
    res.probes[f"clause{case['clause']}.{C.DECODER_CLASS[dk]}"] += 1
    if case.get("warmup_messages"):
        res.faults["history.earlier_calls_on_same_chain"] += len(case["warmup_messages"])
    if case.get("prelude"):
        res.faults["history.sibling_code_built_first"] += 1
    enc = C.private_encoder(spec)
    n = enc.code_length
    if lr.exc is not None:
        violate(f"exception:{type(lr.exc).__name__}@{lr.exc_stage}", f"raised {type(lr.exc).__name__}: {str(lr.exc)[:160]} (stage {lr.exc_stage})")
    elif not isinstance(lr.out, torch.Tensor) or list(lr.out.shape) != list(msg.shape):
        violate("shape", f"returned {type(lr.out).__name__} of shape {list(getattr(lr.out, 'shape', []))}, expected {list(msg.shape)}")
    elif case["clause"] == 1:
        flips = sum(len(p) for row in plan["patterns"] for p in row)
        if flips:
            res.nontrivial.append(core.short_hash([spec, dk, case["messages"] if case["B"] <= 64 else core.short_hash(case["messages"]), plan if case["B"] <= 64 else core.short_hash(plan)]))
            if any(len(p) == plan["t"] for row in plan["patterns"] for p in row):
                res.probes["flips.weight_exactly_t"] += 1
            if case["B"] <= 64:
                res.extra_sets.setdefault("patterns_" + core.short_hash(spec, 8), []).extend(",".join(map(str, p)) for row in plan["patterns"] for p in row if p)
            else:
                res.probes["huge_batch_cases"] += 1
        else:
            res.probes["zero_fault_runs"] += 1
        same = lr.out.to(torch.float64) == msg.to(torch.float64)
        overrows = plan.get("over_budget_rows") or []
        if overrows:
            same[overrows] = True  # more than t flips: nothing is promised for that row
            res.faults["flips.over_budget_rows_mixed_in"] += len(overrows)
        if not bool(same.all()):
            r = int((~same).any(dim=1).nonzero()[0])
            violate("mismatch", f"row {r}: {len(plan['patterns'][r][0])} flips at {plan['patterns'][r][0]} (t={plan['t']}) but the decoded message differs from the sent one")
    else:
        # relaxed oracle: the answer's codeword must be a nearest codeword of the received word
        out_bits = (lr.out.round().to(torch.int64) % 2).to(torch.float32)
        with torch.no_grad():
            recoded = enc(out_bits)
        cb = C.codebook(spec)
        cbset = set(cb)
        for r, word in enumerate(plan["words"]):
            w_int = C.bits_to_int(word)
            got = C.bits_to_int((recoded[r].round().to(torch.int64) % 2).tolist())
            dmin = min(bin(c ^ w_int).count("1") for c in cb)
            dgot = bin(got ^ w_int).count("1")
            if w_int not in cbset:
                res.nontrivial.append(core.short_hash([spec, dk, word]))
            res.probes[f"clause2.distance_to_code={min(dmin, 4)}"] += 1
            if dgot != dmin:
                violate("not_nearest", f"row {r}: received word {''.join(map(str, word))}: the decoded message's codeword is at distance {dgot}, the nearest codeword is at distance {dmin}")
                break
    res.digest, res.n_events = log.digest(), len(log)
    return res


def shrink_key(sig):
    return (sig.get("component"), sig.get("encoder"), sig.get("kind"), sig.get("clause"))


def shrink_candidates(case: dict):
    if "inadmissible" in case:
        return
    if case["B"] > 1:
        for r in range(case["B"]):
            c = copy.deepcopy(case)
            c["B"] -= 1
            c["messages"].pop(r)
            if c["plan"]["kind"] == "flips":
                c["plan"]["patterns"].pop(r)
            else:
                c["plan"]["words"].pop(r)
            yield c
    if any(any(row) for row in case["messages"]):
        c = copy.deepcopy(case)
        c["messages"] = [[0] * len(row) for row in case["messages"]]
        yield c
    for key in ("warmup_messages", "prelude"):
        if case.get(key):
            c = copy.deepcopy(case)
            del c[key]
            yield c
    if case["plan"]["kind"] == "flips":
        for r, row in enumerate(case["plan"]["patterns"]):
            p = row[0]
            for j in range(len(p)):
                c = copy.deepcopy(case)
                c["plan"]["patterns"][r][0] = p[:j] + p[j + 1:]
                yield c
    else:
        for r, word in enumerate(case["plan"]["words"]):
            for j, bit in enumerate(word):
                if bit:
                    c = copy.deepcopy(case)
                    c["plan"]["words"][r][j] = 0
                    yield c


def evidence_extra(total):
    from math import comb

    cov = {}
    for k, s in total["extra_sets"].items():
        if k.startswith("patterns_"):
            cov[k] = len(s)
    return {"distinct_error_patterns_per_code_hash": dict(sorted(cov.items(), key=lambda kv: -kv[1])[:12])}


if __name__ == "__main__":
    from sim import runner

    sys.exit(runner.main(sys.modules[__name__]))
