#!/venv/bin/python
"""C05 — noise-free modulation followed by hard demodulation returns the transmitted bits.

Engine E3 `histsim` (+ the zero-fault configuration of E2): one modulator/demodulator pair is
first driven through a seeded *pre-history* meant to dirty whatever state it carries (forwards
in train and eval mode on differing batch shapes, mode toggles, resets at odd places); then the
step the property speaks about is taken — reset_state() and eval() on both, demod(mod(bits))
through an ideal channel — and compared with a small reference model of each scheme's
documented start-up loss.  Bit sequences walk every symbol / every ordered pair of symbols.
"""

from __future__ import annotations

import os
import sys

sys.path.insert(0, os.path.dirname(os.path.dirname(os.path.abspath(__file__))))
sys.path.insert(0, os.path.dirname(os.path.abspath(__file__)))
os.environ.setdefault("MPLBACKEND", "Agg")  # constellation plots are drawn off-screen

import copy

import torch

from sim import catalogue as C
from sim import core
from sim.core import EventLog, RunResult, Violation
from sim.shrink import list_ddmin

from kaira.channels import PerfectChannel
from kaira.models.generic.sequential import SequentialModel

PROPERTY = "C05"
ENGINE = "histsim"
LEVEL = "exploration"
TIERS = {
    "quick": {"runs": 9000, "budget_s": 300, "chunk": 150},
    "thorough": {"runs": 600000, "budget_s": 3000, "chunk": 1000},
}
SELFTEST_N = 96
RULE = (
    "one case = (scheme + order + labeling + normalisation, direct|registry construction, pre-history of mode/forward/reset ops with explicit bits, "
    "check step: layout 1-D|(B,L)|(B1,B2,L) and explicit bit sequence [all symbols | all ordered symbol pairs | random]); generated from "
    "run_seed=H(C05,VERIF_SEED,index). Distinct = hash of the whole case. Non-trivial = the check sequence has >= 2 symbols and, for schemes with "
    "memory, the pre-history contains a train-mode forward (the state was actually dirtied) or the sequence covers all ordered symbol pairs."
)
ASSUMPTIONS = [
    "reference model of start-up loss: DPSK returns the bits of symbols 2..N; OQPSK returns (I_k, Q_{k-1}) with the first Q slot unspecified and the last Q bit not returned; all other schemes return every bit",
    "nothing is asserted about outputs in train mode, about carry-over between eval-mode calls, or about what a pre-history call returns or raises",
    "check step runs after reset_state() and .eval() on modulator and demodulator, through SequentialModel([mod, PerfectChannel(), demod])",
]
COMPONENTS_REAL = ["BPSK/QPSK/PSK/QAM/PAM/DPSK(DBPSK,DQPSK)/OQPSK/pi4-QPSK/identity modulators and demodulators", "ModulationRegistry.create", "SequentialModel", "PerfectChannel"]
COMPONENTS_STUB = ["call-history driver (simulator-owned)", "reference start-up-loss model"]

MEMORY = ("dpsk", "oqpsk", "pi4qpsk")


def _bits_for_symbols(symbols, bps):
    out = []
    for s in symbols:
        out.extend((s >> (bps - 1 - j)) & 1 for j in range(bps))
    return out


def _all_pairs_sequence(M, rng):
    """A symbol sequence in which every ordered pair (a, b) of the M symbols occurs consecutively
    (Eulerian circuit of the complete digraph with loops, Hierholzer, seeded edge order)."""
    out_edges = {a: list(range(M)) for a in range(M)}
    for a in out_edges:
        rng.shuffle(out_edges[a])
    stack, circuit = [0], []
    while stack:
        v = stack[-1]
        if out_edges[v]:
            stack.append(out_edges[v].pop())
        else:
            circuit.append(stack.pop())
    return circuit[::-1]


def gen_case(run_seed: int, index: int, tier: str) -> dict:
    rng = core.rng_for(run_seed)
    scheme = rng.choice(["bpsk", "qpsk", "psk", "qam", "pam", "identity", "dpsk", "dpsk", "oqpsk", "oqpsk", "pi4qpsk", "pi4qpsk"])
    very_long = index % 2500 == 5  # one very long random sequence per 2500 runs
    if very_long:
        scheme = rng.choice(["qam", "qam", "psk", "pam"])
    long_dpsk = index % 5000 == 6  # and one very long differential sequence per 5000 runs (the modulator walks it symbol by symbol: ~15 s)
    if long_dpsk:
        scheme = "dpsk"
    mod = C.gen_mod_spec(rng, [scheme])
    if long_dpsk:
        mod = {"scheme": "dpsk", "order": 16, "gray": rng.random() < 0.5, "via": "order", "label_kw": "gray_coding", "size_kw": "order"}
    case = {"mod": mod, "via_registry": rng.random() < 0.25}
    # hermetic history: a sibling pair of the same scheme and order with the other labeling (or normalisation) is built and used once
    # in this process before the pair under test is built, as a simulation sweeping over labelings would do
    sib_keys = [k for k in ("gray", "normalize") if isinstance(mod.get(k), bool)]
    if sib_keys and rng.random() < 0.2:
        case["sibling_flip"] = rng.choice(sib_keys)
    try:
        m, _ = C.build_modem(mod, case["via_registry"])
        bps = 1 if scheme == "identity" else int(m.bits_per_symbol)
    except C.Inadmissible as e:
        case["inadmissible"] = str(e)[:300]
        return case
    M = 1 << bps
    case["bps"] = bps
    # ---- pre-history
    pre = []
    for _ in range(rng.choice([0, 1, 2, 3, 4, 6])):
        r = rng.random()
        if r < 0.3:
            pre.append(["mode", rng.choice(["mod", "demod", "both"]), rng.random() < 0.6])
        elif r < 0.85:
            shape = rng.choice([[1], [1], [2], [3], [2, 2]]) if rng.random() < 0.7 else []
            nsym = rng.choice([2, 3, 4, 5, 8])
            rows = 1
            for s in shape:
                rows *= s
            bits = [[rng.randrange(2) for _ in range(nsym * bps)] for _ in range(rows)]
            pre.append(["fwd", rng.choice(["mod", "both", "both", "both_soft"]), shape, bits])
        elif r < 0.90:
            pre.append(["reset", rng.choice(["mod", "demod", "both"])])
        elif r < 0.93:
            # the whole object is cast, as a pipeline holding it would be (model.half(), model.bfloat16(), a bf16 checkpoint)
            pre.append(["cast", rng.choice(["mod", "demod", "demod", "both"]), rng.choice(["double", "half", "bfloat16", "bfloat16", "float"])])
        else:
            # read-only use of the objects: plotting the constellation, printing, reading the state dict
            pre.append(["inspect", rng.choice(["mod", "demod", "both"]), rng.choice(["plot", "plot", "repr", "state_dict"])])
    case["pre"] = pre
    # ---- the check step
    kind = rng.choice(["all_symbols", "all_pairs", "random", "random"]) if M <= 16 else rng.choice(["all_symbols", "random"])
    layout = rng.choice(["1d", "2d", "2d", "2d", "3d"])
    rows = {"1d": 1, "2d": rng.choice([1, 2, 3, 3, 8]), "3d": 4}[layout]
    seqs = []
    for _ in range(rows):
        if kind == "all_symbols":
            syms = list(range(M))
            rng.shuffle(syms)
            if scheme in MEMORY:
                syms = [rng.randrange(M)] + syms + [rng.randrange(M)]
        elif kind == "all_pairs":
            syms = _all_pairs_sequence(M, rng)
        else:
            syms = [rng.randrange(M) for _ in range(rng.choice([2, 3, 4, 7, 16, 33, 64, 200, 200, 300, 1024, 2500]))]
        seqs.append(_bits_for_symbols(syms, bps))
    L = min(len(s) for s in seqs)
    if long_dpsk:
        case["pre"] = []
        case["check"] = {"layout": "2d", "kind": "very_long", "long_seed": rng.randrange(1 << 31), "nsym": 900_000, "bits": None, "dtype": "float32", "noncontig": False, "tail_only": 60_000}
        return case
    if very_long:
        # longer than any internal table / block size that scales as 2**24 / order
        nlong = min((1 << 24) // M + rng.choice([1000, 4464]), 4_300_000)
        case["pre"] = []
        case["check"] = {"layout": rng.choice(["1d", "2d"]), "kind": "very_long", "long_seed": rng.randrange(1 << 31), "nsym": nlong, "bits": None,
                         "dtype": "float32", "noncontig": False}
        return case
    case["check"] = {"layout": layout, "kind": kind, "bits": [s[:L] for s in seqs],
                     # bits arrive in whatever dtype the caller keeps them in (a dtype may be rejected, never answered wrongly)
                     "dtype": rng.choice(["float32", "float32", "float32", "float64", "int64", "int32", "uint8", "int8", "bool", "float16", "bfloat16"]), "noncontig": rng.random() < 0.2,
                     # another user's frame of the same shape is modulated by the same object before this one is demodulated
                     "frame_between": rng.random() < 0.3, "between_seed": rng.randrange(1 << 31),
                     # the user looks at the received symbols (scatter plot) before demodulating them
                     "plot_in_flight": rng.random() < 0.04,
                     # the caller keeps one pre-allocated frame buffer: an earlier frame in the very same tensor object was modulated by
                     # the same modulator, then the buffer was refilled in place with this frame's bits
                     "buffer_reuse": rng.random() < 0.25}
    return case


BIT_DTYPES = {"float32": torch.float32, "float64": torch.float64, "int64": torch.int64, "int32": torch.int32, "uint8": torch.uint8, "int8": torch.int8,
              "bool": torch.bool, "float16": torch.float16, "bfloat16": torch.bfloat16}


def _expected(scheme, bps, row):
    """(expected bits, mask of positions that are specified)"""
    if scheme == "dpsk":
        exp = row[bps:]
        return exp, [True] * len(exp)
    if scheme == "oqpsk":
        n = len(row) // 2
        exp, mask = [], []
        for k in range(n):
            exp.append(row[2 * k])
            mask.append(True)
            exp.append(row[2 * k - 1] if k >= 1 else 0)
            mask.append(k >= 1)
        return exp, mask
    return list(row), [True] * len(row)


def execute(case: dict) -> RunResult:
    log = EventLog()
    res = RunResult()
    log.add("case", case)
    if "inadmissible" in case:
        res.inadmissible = True
        res.digest, res.n_events = log.digest(), len(log)
        return res
    spec = case["mod"]
    scheme = spec["scheme"]
    bps = case["bps"]
    chk = case["check"]

    def violate(kind, msg):
        sig = {"component": scheme, "kind": kind, "layout": "1d" if chk["layout"] == "1d" else "batched"}
        for k in ("order", "gray"):
            if k in spec:
                sig[k] = spec[k]
        nsy = chk.get("nsym") or len(chk["bits"][0]) // bps
        res.violations.append(Violation(sig, f"C05: {C.mod_name(spec)} ({'registry' if case['via_registry'] else 'direct'}), layout {chk['layout']}, {chk['kind']} sequence of {nsy} symbols after a pre-history of {len(case['pre'])} ops: {msg}"))

    if case.get("sibling_flip"):
        try:
            sspec = dict(spec)
            sspec[case["sibling_flip"]] = not spec[case["sibling_flip"]]
            smod, sdem = C.build_modem(sspec, case["via_registry"])
            smod.eval()
            sdem.eval()
            with torch.no_grad():
                gs = torch.Generator().manual_seed(11)
                sb = torch.randint(0, 2, (2, 12 * bps), generator=gs).to(torch.float32)
                sy = smod(sb)
                sdem(sy)
                sdem(sy, 0.5)
            res.faults["history.sibling_with_other_labeling_used_first"] += 1
        except Exception:
            res.probes["sibling_pair_raised"] += 1  # nothing is asked of the sibling itself
    try:
        mod, demod = C.build_modem(spec, case["via_registry"])
    except C.Inadmissible:
        res.inadmissible = True
        res.digest, res.n_events = log.digest(), len(log)
        return res
    dirtied = False
    cast_seen = False
    for op in case["pre"]:
        try:
            if op[0] == "mode":
                for tgt, obj in (("mod", mod), ("demod", demod)):
                    if op[1] in (tgt, "both"):
                        obj.train(op[2])
                res.faults["history.mode_toggle"] += 1
            elif op[0] == "inspect":
                for tgt, obj in (("mod", mod), ("demod", demod)):
                    if op[1] in (tgt, "both"):
                        if op[2] == "plot" and hasattr(obj, "plot_constellation"):
                            import matplotlib.pyplot as plt

                            try:
                                obj.plot_constellation()
                                res.faults["history.constellation_plotted"] += 1
                            finally:
                                plt.close("all")
                        elif op[2] == "repr":
                            repr(obj)
                        else:
                            obj.state_dict()
            elif op[0] == "cast":
                for tgt, obj in (("mod", mod), ("demod", demod)):
                    if op[1] in (tgt, "both"):
                        getattr(obj, op[2])()
                cast_seen = True
                res.faults[f"history.module_{op[2]}"] += 1
            elif op[0] == "reset":
                for tgt, obj in (("mod", mod), ("demod", demod)):
                    if op[1] in (tgt, "both"):
                        obj.reset_state()
                res.faults["history.reset"] += 1
            else:
                x = torch.tensor(op[3], dtype=torch.float32).reshape(*op[2], -1) if op[2] else torch.tensor(op[3][0], dtype=torch.float32)
                with torch.no_grad():
                    y = mod(x)
                    if op[1] == "both":
                        demod(y)
                    elif op[1] == "both_soft":
                        demod(y, 0.5)  # an earlier soft-decision use of the same receiver object
                        res.faults["history.soft_call_on_same_receiver"] += 1
                res.faults["history.forward"] += 1
                if mod.training:
                    dirtied = True
                    res.faults["history.train_mode_forward"] += 1
            log.add("pre", {"op": op[0], "ok": True})
        except Exception as e:  # nothing is promised about pre-history calls
            log.add("pre", {"op": op[0], "ok": False, "exc": type(e).__name__})
            res.probes["prehistory_call_raised"] += 1
    # ---- the step the property speaks about
    mod.reset_state()
    demod.reset_state()
    mod.eval()
    demod.eval()
    rows = chk["bits"]
    if rows is None:  # very long sequence: derived from the case's seed (too long to list)
        gl = torch.Generator().manual_seed(chk["long_seed"])
        rows = [torch.randint(0, 2, (chk["nsym"] * bps,), generator=gl).tolist()]
        res.probes["very_long_sequence_cases"] += 1
    nbits = len(rows[0])
    nsym = nbits // bps
    x = torch.tensor(rows, dtype=BIT_DTYPES[chk.get("dtype", "float32")])
    if chk.get("noncontig") and x.shape[0] > 1:
        x = x.t().contiguous().t()  # same bits, non-contiguous memory
        res.probes["input.noncontiguous"] += 1
    if chk["layout"] == "1d":
        x = x[0]
    elif chk["layout"] == "3d":
        x = x.reshape(2, 2, nbits)
    res.probes[f"bits.dtype.{chk.get('dtype', 'float32')}"] += 1
    x0 = x.clone()
    if nsym >= 2 and (scheme not in MEMORY or dirtied or chk["kind"] == "all_pairs"):
        res.nontrivial.append(core.short_hash(case))
    res.probes[f"scheme.{scheme}"] += 1
    res.probes[f"sequence.{chk['kind']}"] += 1
    try:
        tap = []

        class _Tap(PerfectChannel):
            def forward(self, t, *a, **k):
                tap.append(t.detach().clone())
                tap.append(t)  # the very tensor the demodulator is given
                if chk.get("plot_in_flight") and t.numel() <= 4096:
                    import matplotlib.pyplot as plt

                    from kaira.modulations.utils import plot_constellation as _plot

                    try:
                        _plot(t.flatten() if torch.is_complex(t) else torch.complex(t.flatten().float(), torch.zeros(t.numel())))
                        res.faults["history.received_symbols_plotted_before_demodulation"] += 1
                    except Exception:
                        res.probes["plot_in_flight_raised"] += 1  # nothing is promised about the plot itself
                    finally:
                        plt.close("all")
                    if not torch.equal(t, tap[0]):
                        # judged by its consequence only: the bits demodulated from the symbols in flight (below)
                        res.probes["received_symbols_changed_by_plotting"] += 1
                        tap[0] = t.detach().clone()
                if chk.get("frame_between"):
                    gb = torch.Generator().manual_seed(chk["between_seed"])
                    other = torch.randint(0, 2, tuple(x.shape), generator=gb).to(x.dtype)
                    mod(other)  # eval mode after a reset: this must neither disturb the frame in flight nor the state
                    res.faults["history.other_frame_modulated_in_between"] += 1
                    if not torch.equal(t, tap[0]):
                        violate("symbols_overwritten", "modulating another frame overwrote the symbols returned for the first frame")
                return super().forward(t, *a, **k)

        if chk.get("buffer_reuse"):
            real = x.clone()
            gr = torch.Generator().manual_seed(chk["between_seed"] ^ 0x2F2F)
            x.copy_(torch.randint(0, 2, tuple(x.shape), generator=gr).to(x.dtype))
            try:
                with torch.no_grad():
                    mod(x)
            except Exception:
                pass  # judged on the frame below
            x.copy_(real)
            for o in (mod, demod):
                o.reset_state()
            res.faults["history.frame_buffer_refilled_in_place"] += 1
        with torch.no_grad():
            out = SequentialModel([mod, _Tap(), demod])(x)
        sym = tap[0]
        if not torch.equal(tap[1], tap[0]):
            violate("symbols_modified", "the demodulator modified the received symbol tensor it was given")
        elif nbits <= 20000 and scheme in MEMORY + ("qpsk", "psk", "qam", "pam", "bpsk"):
            # a second receiver listening to the same symbols must hear the same bits
            _, demod2 = C.build_modem(spec, case["via_registry"])
            demod2.eval()
            demod2.reset_state()
            with torch.no_grad():
                out2 = demod2(tap[1])
            if out2.shape != out.shape or not torch.equal(out2.to(torch.float64), out.to(torch.float64)):
                violate("second_receiver", "a second, fresh demodulator given the same symbols returned different bits")
    except Exception as e:
        if cast_seen:
            res.probes["rejected_after_module_cast"] += 1  # narrow relaxation: a cast object may refuse inputs of another precision
        elif chk.get("dtype", "float32") not in ("float32", "float64", "int64"):
            res.probes[f"rejected_dtype.{chk['dtype']}"] += 1  # narrow relaxation: an input type may be rejected
        else:
            violate(f"exception:{type(e).__name__}", f"raised {type(e).__name__}: {str(e)[:160]}")
        res.digest, res.n_events = log.digest(), len(log)
        return res
    log.add("check", {"symbols": sym, "out": out})
    if not torch.equal(x, x0):
        violate("input_modified", "the input bit tensor was modified")
    if list(sym.shape[:-1]) != list(x.shape[:-1]) or sym.shape[-1] != nsym:
        violate("symbol_count", f"{nbits} bits per row with {bps} bits/symbol gave symbols of shape {list(sym.shape)}, expected {list(x.shape[:-1]) + [nsym]}")
    else:
        outr = out.reshape(-1, out.shape[-1]) if out.dim() >= 1 else out.reshape(1, 1)
        for r, row in enumerate(rows):
            exp, mask = _expected(scheme, bps, row)
            if list(out.shape[:-1]) != list(x.shape[:-1]) or outr.shape[-1] != len(exp):
                violate("output_length", f"demodulated shape {list(out.shape)}, expected {list(x.shape[:-1]) + [len(exp)]} bits")
                break
            tail = chk.get("tail_only")
            if tail:
                got_t = outr[r][-tail * bps:].to(torch.float64)
                exp_t = torch.tensor(exp[-tail * bps:], dtype=torch.float64)
                nbad = int((got_t != exp_t).sum())
                if nbad:
                    violate("mismatch", f"row {r}: {nbad} of the last {tail * bps} bits of a {nsym}-symbol sequence differ")
                    break
                continue
            got = outr[r].tolist()
            bad = [i for i, (g, e, mk) in enumerate(zip(got, exp, mask)) if mk and g != e]
            if bad:
                violate("mismatch", f"row {r}: {len(bad)} of {sum(mask)} specified bits differ (first at bit {bad[0]}: sent symbol stream {row[:12]}..., got {[int(v) for v in got[:12]]}...)")
                break
    res.digest, res.n_events = log.digest(), len(log)
    return res


def shrink_key(sig):
    return (sig.get("component"), sig.get("kind"), sig.get("layout"))


def shrink_candidates(case: dict):
    if "inadmissible" in case or case["check"].get("bits") is None:
        return
    for cand in list_ddmin(case["pre"]):
        c = copy.deepcopy(case)
        c["pre"] = copy.deepcopy(cand)
        yield c
    bits = case["check"]["bits"]
    bps = case["bps"]
    if len(bits) > 1 and case["check"]["layout"] == "2d":
        c = copy.deepcopy(case)
        c["check"]["bits"] = bits[:1]
        yield c
    nsym = len(bits[0]) // bps
    for keep in (2, 3, nsym // 2, nsym - 1):
        if 2 <= keep < nsym:
            c = copy.deepcopy(case)
            c["check"]["bits"] = [row[: keep * bps] for row in bits]
            yield c
            c = copy.deepcopy(case)
            c["check"]["bits"] = [row[-keep * bps:] for row in bits]
            yield c
    if case.get("via_registry"):
        c = copy.deepcopy(case)
        c["via_registry"] = False
        yield c


def sample_of(case):
    c = copy.deepcopy(case)
    if "check" in c and len(c["check"]["bits"][0]) > 48:
        c["check"]["bits"] = [row[:48] + ["..."] for row in c["check"]["bits"]]
    return c


if __name__ == "__main__":
    from sim import runner

    sys.exit(runner.main(sys.modules[__name__]))
