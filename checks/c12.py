#!/venv/bin/python
"""C12 — binary channels follow their transition law and never leave their alphabet.

Engine E4 `rngsim`: the simulator owns the random source (torch.manual_seed from the case), so a
run is one replayable realisation of the channel's fault process.  Exact support invariants on
every sample; rates / symmetry / pairwise independence with exact binomial tests at a per-test
level that keeps the union over a check run <= 1e-9.
"""

from __future__ import annotations

import os
import sys

sys.path.insert(0, os.path.dirname(os.path.dirname(os.path.abspath(__file__))))

import copy

import torch

from sim import core, stats
from sim.core import EventLog, RunResult, Violation

from kaira.channels import BinaryErasureChannel, BinarySymmetricChannel, BinaryZChannel
from kaira.channels.registry import ChannelRegistry

PROPERTY = "C12"
ENGINE = "rngsim"
LEVEL = "exploration"
TIERS = {
    "quick": {"runs": 1600, "budget_s": 300, "chunk": 25},
    "thorough": {"runs": 60000, "budget_s": 3000, "chunk": 100},
}
SELFTEST_N = 48
RULE = (
    "one case = (channel, probability, alphabet {0,1}|{-1,+1}, dtype, shape, input kind, erasure symbol, torch seed, data seed); the realisation "
    "is fixed by torch.manual_seed(case.torch_seed). Generated from run_seed=H(C12,VERIF_SEED,index). Distinct = hash of the whole case. "
    "Non-trivial = probability strictly inside (0,1) (the channel actually draws faults) and at least one eligible input symbol."
)
ASSUMPTIONS = [
    "torch's global generator is the only random source of the channels (seam: torch.manual_seed)",
    f"statistical clauses decided by exact binomial tests at per-test level {stats.ALPHA:g} (union over a run <= 1e-9)",
    "pair tests use disjoint pairs (i, i+lag) with floor(i/lag) even, which are independent under the i.i.d. law",
    "bipolar inputs contain at least one -1 (how the library recognises the format); erasure symbol chosen outside the alphabet",
]
COMPONENTS_REAL = ["BinarySymmetricChannel", "BinaryErasureChannel", "BinaryZChannel", "ChannelRegistry.create"]
COMPONENTS_STUB = ["random source: torch generator seeded by the simulator", "input bit source (local torch.Generator)"]

PROBS = [0.0, 1e-3, 0.01, 0.05, 0.11, 0.25, 0.5, 0.75, 0.9, 0.99, 0.999, 1.0]
DT = {"float32": torch.float32, "float64": torch.float64, "int64": torch.int64, "int32": torch.int32, "bool": torch.bool,
      "float16": torch.float16, "bfloat16": torch.bfloat16, "int8": torch.int8}


def gen_case(run_seed: int, index: int, tier: str) -> dict:
    rng = core.rng_for(run_seed)
    ch = rng.choice(["bsc", "bec", "z"])
    alphabet = rng.choice(["01", "01", "pm1"])
    big = rng.random() < 0.55
    if big:
        shape = rng.choice([[1 << 20], [1024, 1024], [4096, 256], [16, 256, 256], [999, 1051], [333, 3001]])
    else:
        shape = rng.choice([[1], [7], [64], [3, 5], [1, 9], [9, 1], [2, 3, 4], [2, 2, 2, 3], [1000], [37, 11], [5, 1, 1], [2, 3, 1, 4]])
    dtype = rng.choice(["float32", "float32", "float64", "int64", "int32", "float16", "bfloat16", "int8"] + (["bool"] if alphabet == "01" else []))
    p = rng.choice(PROBS) if rng.random() < 0.8 else round(rng.random(), 4)
    es = rng.choice([-1, -1, 2, 0.5, 7]) if alphabet == "01" else rng.choice([0, 0, 2, 0.5])
    if rng.random() < 0.15:
        es = rng.choice(["nan", "inf", "-inf"])  # a non-finite marker for "missing" (kept as text in the case; float() of it is used)
    # many short words through one channel object: the number of events per call must be binomial, not merely right on average
    words = {"calls": rng.choice([1500, 3000]), "len": rng.choice([7, 8, 16, 31, 64]), "eligible": None} if rng.random() < 0.3 else None
    if words is not None:
        words["eligible"] = rng.randrange(1, words["len"] + 1) if ch == "z" else words["len"]
    return {
        "words": words,
        "channel": ch, "p": p, "alphabet": alphabet, "dtype": dtype, "shape": shape,
        "input": rng.choice(["random", "random", "random", "sparse", "dense", "all_one", "all_zero"]),
        "erasure_symbol": es, "torch_seed": rng.randrange(1 << 31), "data_seed": rng.randrange(1 << 31),
        "how": rng.choice(["class", "class", "registry", "positional", "keyword"]), "p_as_tensor": rng.random() < 0.2,
        "warmup": rng.choice([None, None, [3], [2, 5], [4, 1, 2]]),  # earlier calls on the same channel object, other shape
        "warmup_n": rng.choice([1, 1, 2, 4]), "other_instance_first": rng.random() < 0.2, "mode": rng.choice([None, None, "eval", "train"]),
        "module_cast": rng.choice([None, None, None, "double", "half", "bfloat16", "float", "to_cpu", "deepcopy"]),
        "noncontig": rng.random() < 0.25,
        "sibling_sweep": rng.random() < 0.2,
    }


def _input(case):
    g = torch.Generator().manual_seed(case["data_seed"])
    shape = case["shape"]
    kind = case["input"]
    if kind == "random":
        b = torch.randint(0, 2, shape, generator=g)
    elif kind == "sparse":
        b = (torch.rand(shape, generator=g) < 0.1).long()
    elif kind == "dense":
        b = (torch.rand(shape, generator=g) < 0.9).long()
    elif kind == "all_one":
        b = torch.ones(shape, dtype=torch.long)
    else:
        b = torch.zeros(shape, dtype=torch.long)
    if case["alphabet"] == "pm1":
        x = 2 * b - 1
        if not bool((x == -1).any()):  # the format is recognised by the presence of a -1
            x.reshape(-1)[0] = -1
            b = (x + 1) // 2
        return x.to(DT[case["dtype"]]), b.bool()
    return b.to(DT[case["dtype"]]), b.bool()


def _es(case):
    v = case["erasure_symbol"]
    return float(v) if isinstance(v, str) else v


def _channel(case):
    p = torch.tensor(case["p"]) if case["p_as_tensor"] else case["p"]
    if case["how"] == "registry":
        if case["channel"] == "bsc":
            return ChannelRegistry.create("binarysymmetricchannel", crossover_prob=p)
        if case["channel"] == "bec":
            return ChannelRegistry.create("binaryerasurechannel", erasure_prob=p, erasure_symbol=_es(case))
        return ChannelRegistry.create("binaryzchannel", error_prob=p)
    if case["channel"] == "bsc":
        return BinarySymmetricChannel(p) if case.get("how") != "keyword" else BinarySymmetricChannel(crossover_prob=p)
    if case["channel"] == "bec":
        if case.get("how") == "positional":
            return BinaryErasureChannel(p, _es(case))  # both documented parameters by position
        return BinaryErasureChannel(p, erasure_symbol=_es(case))
    return BinaryZChannel(p) if case.get("how") != "keyword" else BinaryZChannel(error_prob=p)


def execute(case: dict) -> RunResult:
    log = EventLog()
    res = RunResult()
    log.add("case", case)
    name = {"bsc": "BinarySymmetricChannel", "bec": "BinaryErasureChannel", "z": "BinaryZChannel"}[case["channel"]]

    def violate(kind, msg, **extra):
        sig = {"component": name, "kind": kind, "alphabet": case["alphabet"]}
        sig.update(extra)
        res.violations.append(Violation(sig, f"C12/{name}: {msg} [p={case['p']}, alphabet={case['alphabet']}, dtype={case['dtype']}, shape={case['shape']}, input={case['input']}]"))

    x, ones = _input(case)  # ones: positions carrying the symbol that means binary 1
    if case.get("noncontig") and x.dim() >= 2:
        x = x.transpose(0, -1).contiguous().transpose(0, -1)  # same values, non-contiguous memory
        res.probes["input.noncontiguous"] += 1
    x0 = x.clone()
    if case.get("other_instance_first"):
        # another object of the same class, other probability, is created and used first (class-level state would show)
        other = dict(case, p=0.5 if case["p"] != 0.5 else 0.25, how="class")
        torch.manual_seed(case["torch_seed"] ^ 0x777)
        _channel(other)(torch.randint(0, 2, (4, 6)).to(torch.float32))
        res.faults["history.other_instance_first"] += 1
    ch = _channel(case)
    if case.get("sibling_sweep"):
        # a second channel configured with the SAME probability is swept afterwards by updating its probability in place
        # (`sib.crossover_prob += 0.1`): that is the sibling's business and must not move the channel under test
        sib = _channel(dict(case, how="class"))
        attr = {"bsc": "crossover_prob", "bec": "erasure_prob", "z": "error_prob"}[case["channel"]]
        cur = getattr(sib, attr, None)
        try:
            if isinstance(cur, torch.Tensor):
                cur += 0.37 if float(cur) < 0.5 else -0.37
            else:
                setattr(sib, attr, (cur + 0.37) if cur < 0.5 else (cur - 0.37))
            res.faults["history.sibling_probability_updated_in_place"] += 1
        except Exception:
            res.probes["sibling_update_rejected"] += 1
    if case.get("mode"):
        ch.train(case["mode"] == "train")
    if case.get("module_cast"):
        # nn.Module-level operations that do not reconfigure the channel (a whole pipeline is often cast or copied)
        import copy as _copy

        mc = case["module_cast"]
        ch = {"double": ch.double, "half": ch.half, "bfloat16": ch.bfloat16, "float": ch.float, "to_cpu": lambda: ch.to("cpu"), "deepcopy": lambda: _copy.deepcopy(ch)}[mc]()
        res.faults[f"history.module_{mc}"] += 1
    if case.get("warmup"):
        w = torch.randint(0, 2, case["warmup"], generator=torch.Generator().manual_seed(case["data_seed"] ^ 0x33))
        if case["alphabet"] == "pm1":
            w = 2 * w - 1
            w.reshape(-1)[0] = -1
        torch.manual_seed(case["torch_seed"] ^ 0x1234)
        for _ in range(case.get("warmup_n", 1)):
            ch(w.to(DT[case["dtype"]]))
            res.faults["history.earlier_call_on_same_object"] += 1
    torch.manual_seed(case["torch_seed"])
    y = ch(x)
    log.add("output", y)
    p = float(case["p"])
    inside = 0.0 < p < 1.0
    if not torch.equal(x, x0):
        violate("input_modified", "the input tensor was modified by the channel")
        x = x0
    if list(y.shape) != list(x.shape):
        violate("shape", f"output shape {list(y.shape)} differs from input shape {list(x.shape)}")
        res.digest, res.n_events = log.digest(), len(log)
        return res
    xf = x.to(torch.float64)
    yf = y.to(torch.float64)
    lo, hi = (0.0, 1.0) if case["alphabet"] == "01" else (-1.0, 1.0)
    in_alpha = (yf == lo) | (yf == hi)
    n = x.numel()
    flat_ones = ones.reshape(-1)
    if case["channel"] == "bec":
        es = float(case["erasure_symbol"])
        erased = torch.isnan(yf) if es != es else (yf == es)
        if not bool((in_alpha | erased).all()):
            violate("alphabet", f"output contains values outside the alphabet plus the erasure symbol: {sorted(set(yf.reshape(-1).tolist()))[:6]}")
        if not bool((erased | (yf == xf)).all()):
            violate("unerased_changed", "an unerased symbol differs from the input symbol")
        e = erased.reshape(-1)
        elig = None
        nel = n
    else:
        if not bool(in_alpha.all()):
            violate("alphabet", f"output leaves the input alphabet: values {sorted(set(yf.reshape(-1).tolist()))[:6]}")
        changed = (yf != xf)
        e = changed.reshape(-1)
        if case["channel"] == "z":
            if bool((changed & ~ones).any()):
                violate("zero_to_one", "a 0 (the symbol mapped to binary 0) was turned into a 1")
            elig = flat_ones
            nel = int(flat_ones.sum())
            e = e & flat_ones
        else:
            elig = None
            nel = n
    k = int(e.sum())
    res.faults[f"{case['channel']}.events"] += k
    log.add("events", {"k": k, "eligible": nel})
    if p == 0.0 and k != 0:
        violate("p0_not_identity", f"probability 0 but {k} symbols were changed/erased")
    if p == 1.0 and k != nel:
        violate("p1_not_extreme", f"probability 1 but only {k} of {nel} eligible symbols were changed/erased")
    if p == 0.0 and case["channel"] != "bec" and not bool((yf == xf).all()):
        violate("p0_not_identity", "probability 0 but the output differs from the input")
    # ---------------------------------------------------------------- a second use right after the first (no reseeding)
    if inside and nel >= 50000 and list(y.shape) == list(x.shape):
        y2 = ch(x)
        y2f = y2.to(torch.float64)
        if case["channel"] == "bec":
            es2 = float(case["erasure_symbol"])
            e2 = (torch.isnan(y2f) if es2 != es2 else (y2f == es2)).reshape(-1)
        else:
            e2 = (y2f != xf).reshape(-1)
            if case["channel"] == "z":
                e2 = e2 & flat_ones
        both = int((e & e2).sum())
        ok, d = stats.binom_test(both, nel, p * p)
        res.probes["stat.cross_call_tests"] += 1
        if not ok:
            violate("dependence_across_calls", f"two consecutive uses of the channel on the same input do not fault independently (joint rate vs p^2): {d}", stat=True)
    # ---------------------------------------------------------------- many short words through the same object
    wd = case.get("words")
    if wd and inside and not res.violations:
        N, L, K = wd["calls"], wd["len"], wd["eligible"]
        gw = torch.Generator().manual_seed(case["data_seed"] ^ 0x77)
        counts = []
        es_w = float(case["erasure_symbol"])
        for _ in range(N):
            if case["channel"] == "z":
                bits = torch.zeros(L, dtype=torch.long)
                bits[torch.randperm(L, generator=gw)[:K]] = 1
            else:
                bits = torch.randint(0, 2, (L,), generator=gw)
            w = (2 * bits - 1) if case["alphabet"] == "pm1" else bits
            if case["alphabet"] == "pm1" and not bool((w == -1).any()):
                counts.append(None)  # a word without a -1 is not recognisable as bipolar: not part of the statement
                continue
            wx = w.to(DT[case["dtype"]])
            wy = ch(wx).to(torch.float64)
            if case["channel"] == "bec":
                ev = torch.isnan(wy) if es_w != es_w else (wy == es_w)
            else:
                ev = wy != wx.to(torch.float64)
                if case["channel"] == "z":
                    ev = ev & bits.bool()
            counts.append(int(ev.sum()))
        counts = [c for c in counts if c is not None]
        Nc = len(counts)
        res.faults[f"{case['channel']}.short_word_calls"] += Nc
        res.probes["stat.per_call_count_tests"] += 1
        if Nc >= 500:
            from math import comb

            ok, d = stats.binom_test(sum(counts), Nc * K, p)
            if not ok:
                violate("rate_short_words", f"event rate over {Nc} calls with {K} eligible symbols each does not match the configured probability: {d}", stat=True)
            for target, label in ((0, "no event"), (int(p * K + 0.5), "exactly round(p*K) events")):
                q = comb(K, target) * (p ** target) * ((1 - p) ** (K - target))
                ok, d = stats.binom_test(sum(1 for c in counts if c == target), Nc, q)
                if not ok:
                    violate("per_call_count_distribution", f"the number of calls with {label} among {Nc} calls ({K} eligible symbols each) is not binomial: {d}", stat=True)
                    break
    # ---------------------------------------------------------------- statistical clauses
    if inside and nel >= 1:
        res.nontrivial.append(core.short_hash(case))
    if inside and nel >= 50000:
        ok, d = stats.binom_test(k, nel, p)
        res.probes["stat.rate_tests"] += 1
        if not ok:
            violate("rate", f"event rate does not match the configured probability: {d}", stat=True)
        if case["channel"] != "z":
            # symmetry / independence of the input: same rate on input-0 and on input-1 positions
            for sym, mask in (("one", flat_ones), ("zero", ~flat_ones)):
                nm = int(mask.sum())
                if nm >= 20000:
                    ok, d = stats.binom_test(int((e & mask).sum()), nm, p)
                    res.probes["stat.rate_by_input_tests"] += 1
                    if not ok:
                        violate("rate_by_input", f"event rate on input-{sym} positions does not match the configured probability: {d}", stat=True)
        last = case["shape"][-1]
        lags = sorted({1, 2, last, 97} - {0})
        for lag in lags:
            if lag >= n // 4:
                continue
            both, pairs = stats.disjoint_pair_counts(e, elig, lag)
            if pairs >= 20000:
                ok, d = stats.binom_test(both, pairs, p * p)
                res.probes["stat.pair_tests"] += 1
                if not ok:
                    violate("dependence", f"events at distance {lag} are not independent (joint rate vs p^2): {d}", stat=True, lag="row" if lag == last and len(case["shape"]) > 1 else "k")
    res.digest, res.n_events = log.digest(), len(log)
    return res


def shrink_key(sig):
    return (sig.get("component"), sig.get("kind"))


def shrink_candidates(case: dict):
    if case.get("how") != "class":
        c = copy.deepcopy(case)
        c["how"] = "class"
        yield c
    if case.get("p_as_tensor"):
        c = copy.deepcopy(case)
        c["p_as_tensor"] = False
        yield c
    for shp in ([1], [4], [2, 3], [64], [1000]):
        n_new = 1
        for s in shp:
            n_new *= s
        n_old = 1
        for s in case["shape"]:
            n_old *= s
        if n_new < n_old:
            c = copy.deepcopy(case)
            c["shape"] = shp
            yield c
    if case["dtype"] != "float32":
        c = copy.deepcopy(case)
        c["dtype"] = "float32"
        yield c
    if case["input"] != "random":
        c = copy.deepcopy(case)
        c["input"] = "random"
        yield c


if __name__ == "__main__":
    from sim import runner

    sys.exit(runner.main(sys.modules[__name__]))
