#!/venv/bin/python
"""C07 — additive-noise channels deliver exactly the configured noise power / SNR.

Engine E4 `rngsim`: the simulator owns the random source (torch.manual_seed from the case) and
the injection argument noise=.  Exact oracles: same-seed scaling relations between two runs,
verbatim addition of supplied noise, agreement of the library's SNR tools with the definition.
Statistical oracles: zero mean, noise power and SNR equal to the configured value within an
analytic z-sigma bound whose union over a check run stays <= 1e-9.
"""

from __future__ import annotations

import os
import sys

sys.path.insert(0, os.path.dirname(os.path.dirname(os.path.abspath(__file__))))

import copy
import contextlib
import math

import torch

from sim import core, stats
from sim.core import EventLog, RunResult, Violation

from kaira.benchmarks.metrics import StandardMetrics
from kaira.channels import AWGNChannel, FlatFadingChannel, LaplacianChannel, NonlinearChannel
from kaira.metrics.signal.snr import SignalToNoiseRatio
from kaira.utils import snr as ksnr

PROPERTY = "C07"
ENGINE = "rngsim"
LEVEL = "exploration"
TIERS = {
    "quick": {"runs": 1400, "budget_s": 300, "chunk": 20},
    "thorough": {"runs": 50000, "budget_s": 3000, "chunk": 100},
}
SELFTEST_N = 48
RULE = (
    "one case = (channel + parameterisation [power|snr|scale], configured value, second value for the same-seed relation, real/complex, dtype, "
    "shape, signal family and power, torch seed, data seed); the realisation is fixed by torch.manual_seed(case.torch_seed). Generated from "
    "run_seed=H(C07,VERIF_SEED,index). Distinct = hash of the whole case. Non-trivial = configured noise power > 0 / finite SNR and a noise "
    "realisation was actually drawn (conversion-grid and verbatim-noise cases are counted separately as probes)."
)
ASSUMPTIONS = [
    "torch's global generator is the only random source of the channels (seam: torch.manual_seed); supplied noise enters through noise=",
    f"statistical clauses: z-tests with analytic variances from the target law at per-test two-sided level {stats.ALPHA:g} (z={stats.Z:.2f}); union over a run <= 1e-9",
    "same-seed scaling relation assumes the number of random draws does not depend on the configured power; if two same-seed noises are not proportional the relation is recorded as not applicable (never alarmed)",
    "Laplacian: generator clamps |u-1/2|, removing ~1e-4 of the variance; a 3e-4 relative slack is allowed",
    "for the nonlinear channel with an SNR parameter only power-preserving nonlinearities are used, so 'input signal' is unambiguous",
]
COMPONENTS_REAL = ["AWGNChannel", "LaplacianChannel", "NonlinearChannel(add_noise=True)", "FlatFadingChannel noise stage (csi supplied)", "add_noise_for_snr", "snr_db_to_linear/snr_linear_to_db/snr_to_noise_power/noise_power_to_snr", "calculate_snr", "SignalToNoiseRatio", "StandardMetrics.signal_to_noise_ratio"]
COMPONENTS_STUB = ["random source: torch generator seeded by the simulator", "signal source (local torch.Generator)", "supplied noise / csi tensors"]

KINDS = ["awgn_power", "awgn_snr", "awgn_verbatim", "lap_power", "lap_snr", "lap_scale", "nonlin_power", "nonlin_snr", "fading_power", "fading_snr", "add_noise_for_snr", "conversions"]
NONLIN = {
    "neg": lambda t: -t,
    "flip": lambda t: torch.flip(t, dims=[-1]),
    "tanh": lambda t: torch.tanh(t) if not torch.is_complex(t) else torch.tanh(t.real) + 1j * torch.tanh(t.imag),
    "cube": lambda t: t * t.abs() ** 2 * 0.1,
}
PRESERVING = ["neg", "flip"]


def gen_case(run_seed: int, index: int, tier: str) -> dict:
    rng = core.rng_for(run_seed)
    kind = rng.choices(KINDS, weights=[10, 12, 4, 10, 12, 4, 5, 6, 6, 8, 8, 3])[0]
    big = rng.random() < 0.7
    if big:
        shape = rng.choice([[1 << 20], [1024, 1024], [64, 16384], [8, 3, 256, 256], [2, 4, 128, 1024], [1, 1 << 20]])
    else:
        shape = rng.choice([[1], [16], [3, 5], [2, 3, 4], [2, 2, 3, 3], [1000]])
    case = {
        "kind": kind,
        "complex": rng.random() < 0.5,
        "dtype": rng.choice(["float32", "float32", "float64"]),
        "shape": shape,
        "signal": rng.choice(["gauss", "gauss", "const", "uniform", "rows_unequal"]),
        "sig_power": 10 ** rng.uniform(-3, 3),
        "power": 10 ** rng.uniform(-3, 2),
        "power2": 10 ** rng.uniform(-3, 2),
        "snr_db": round(rng.uniform(-20, 40), 3),
        "snr_db2": round(rng.uniform(-20, 40), 3),
        "scale_c": 10 ** rng.uniform(-1, 1),
        "snr_as": rng.choice(["float", "float", "int", "tensor"]),
        "nonlin": rng.choice(list(NONLIN)),
        "complex_mode": rng.choice(["direct", "cartesian", "polar"]),
        "dim": rng.choice([None, None, -1]),
        "fading": rng.choice(["rayleigh", "rician", "lognormal"]),
        "torch_seed": rng.randrange(1 << 31),
        "data_seed": rng.randrange(1 << 31),
        "warmup": rng.choice([None, None, [5], [2, 3], [2, 2, 4]]),
        "noncontig": rng.random() < 0.2,
        "warmup_n": rng.choice([1, 1, 2, 4]),
        "reconfigure": rng.random() < 0.2,  # built with another value, then re-configured through the public attribute
    }
    if index % 5000 == 7:
        # one very large tensor per 5000 runs (block-wise generators would show at the tail)
        case.update({"kind": rng.choice(["lap_power", "awgn_power", "lap_snr"]), "shape": [(3 << 22) + 5], "complex": False, "dtype": "float32", "warmup": None, "noncontig": False})
    case["noise_dtype"] = rng.choice(["same", "same", "wider", "complex"])  # dtype of caller-supplied noise relative to the input
    # the judged calls are made with autograd recording on (the default), inside torch.no_grad(), or inside torch.inference_mode()
    case["grad_mode"] = rng.choice(["grad", "grad", "no_grad", "no_grad", "inference"])
    # a real-valued signal carried in a complex tensor (BPSK symbols, real data cast to complex): imaginary part zero everywhere
    case["imag_zero"] = case["complex"] and rng.random() < 0.2
    if rng.random() < 0.15:  # the edges of the stated ranges
        case["snr_db"], case["snr_db2"] = rng.choice([(-20.0, 40.0), (40.0, -20.0), (40.0, 39.0), (-20.0, -19.0), (0.0, 3.0), (0.0, -3.0), (3.0, 0.0), (-0.0, 10.0), (10.0, 20.0)])
        case["sig_power"] = rng.choice([1e-3, 1e3])
    if case["snr_as"] == "int":
        case["snr_db"] = float(round(case["snr_db"]))
        case["snr_db2"] = float(round(case["snr_db2"]))
    if kind == "nonlin_snr":
        case["nonlin"] = rng.choice(PRESERVING)
    if kind in ("fading_power", "fading_snr") and len(shape) > 2 and shape[0] * 1 > 64:
        case["shape"] = [8, 3, 256, 256]
    return case


DT = {"float32": torch.float32, "float64": torch.float64}


def _signal(case):
    g = torch.Generator().manual_seed(case["data_seed"])
    shape = case["shape"]
    dt = DT[case["dtype"]]
    amp = math.sqrt(case["sig_power"])

    def part():
        fam = case["signal"]
        if fam == "const":
            return (torch.randint(0, 2, shape, generator=g).to(dt) * 2 - 1)
        if fam == "uniform":
            return (torch.rand(shape, generator=g, dtype=dt) * 2 - 1) * math.sqrt(3.0)
        t = torch.randn(shape, generator=g, dtype=dt)
        if fam == "rows_unequal" and len(shape) >= 2:
            w = torch.logspace(-1, 1, shape[0], dtype=dt).reshape([shape[0]] + [1] * (len(shape) - 1))
            t = t * w
        return t

    if case["complex"] and case.get("imag_zero"):
        re = part()
        return torch.complex(re, torch.zeros_like(re)) * amp
    if case["complex"]:
        return torch.complex(part(), part()) * (amp / math.sqrt(2.0))
    return part() * amp


def _snr_arg(case, v):
    if case["snr_as"] == "int":
        return int(v)
    if case["snr_as"] == "tensor":
        return torch.tensor(v)
    return v


def _pw(t) -> float:
    t = t.detach()
    if torch.is_complex(t):
        return float((t.real.double() ** 2 + t.imag.double() ** 2).mean())
    return float((t.double() ** 2).mean())


def execute(case: dict) -> RunResult:
    """A call into the library that raises on an input the property covers is a violation, not a harness failure."""
    try:
        return _execute(case)
    except core.HarnessError:
        raise
    except Exception as e:
        if not core.raised_in_library(e):
            raise
        kind = case["kind"]
        comp = {"awgn": "AWGNChannel", "lap": "LaplacianChannel", "nonlin": "NonlinearChannel", "fading": "FlatFadingChannel", "add": "add_noise_for_snr", "conversions": "snr_utils"}[kind.split("_")[0]]
        res = RunResult()
        log = EventLog()
        log.add("case", case)
        log.add("raised", type(e).__name__)
        res.violations.append(Violation({"component": comp, "kind": f"exception:{type(e).__name__}", "complex": case["complex"]},
                                        f"C07/{comp}: a call on an input the property covers raised {type(e).__name__}: {str(e)[:200]} [kind={kind}, complex={case['complex']}, dtype={case['dtype']}, shape={case['shape']}, autograd={case.get('grad_mode')}]"))
        res.digest, res.n_events = log.digest(), len(log)
        return res


def _execute(case: dict) -> RunResult:
    log = EventLog()
    res = RunResult()
    log.add("case", case)
    kind = case["kind"]
    comp = {"awgn": "AWGNChannel", "lap": "LaplacianChannel", "nonlin": "NonlinearChannel", "fading": "FlatFadingChannel", "add": "add_noise_for_snr", "conversions": "snr_utils"}[kind.split("_")[0]]
    mode = kind.split("_", 1)[1] if "_" in kind and kind != "add_noise_for_snr" else ("snr" if kind == "add_noise_for_snr" else "grid")

    def violate(vkind, msg, **extra):
        sig = {"component": comp, "kind": vkind, "mode": mode, "complex": case["complex"]}
        sig.update(extra)
        res.violations.append(Violation(sig, f"C07/{comp}[{mode}]: {msg} [complex={case['complex']}, dtype={case['dtype']}, shape={case['shape']}, signal={case['signal']}]"))

    if kind == "conversions":
        _conversions(case, res, log, violate)
        res.digest, res.n_events = log.digest(), len(log)
        return res

    x = _signal(case)
    x0 = x.clone()
    n = x.numel()
    cplx = case["complex"]

    # ---------------------------------------------------------------- build the two configurations
    laplace = comp == "LaplacianChannel"

    def retarget(ch, attr, value):
        """build-then-reconfigure: the object was created with another value and is given `value` through the
        public attribute afterwards (the idiom of the repository's own examples)"""
        if case.get("reconfigure") and hasattr(ch, attr):
            setattr(ch, attr, value)
            res.faults["history.reconfigured_by_attribute"] += 1
        return ch

    def other(v, is_db=False):
        return (v + 7.0) if is_db else (v * 3.7)

    def build(which):
        """returns (callable x->(y, signal the noise is added to), configured (kind, value))"""
        rc = bool(case.get("reconfigure"))
        if kind == "awgn_power":
            P = case["power"] if which == 1 else case["power2"]
            ch = retarget(AWGNChannel(avg_noise_power=other(P) if rc else P), "avg_noise_power", P)
            return (lambda s: (ch(s), s)), ("power", P)
        if kind == "awgn_snr":
            S = case["snr_db"] if which == 1 else case["snr_db2"]
            ch = retarget(AWGNChannel(snr_db=_snr_arg(case, other(S, True) if rc else S)), "snr_db", _snr_arg(case, S))
            return (lambda s: (ch(s), s)), ("snr", S)
        if kind == "lap_power":
            P = case["power"] if which == 1 else case["power2"]
            ch = retarget(LaplacianChannel(avg_noise_power=other(P) if rc else P), "avg_noise_power", P)
            return (lambda s: (ch(s), s)), ("power", P)
        if kind == "lap_snr":
            S = case["snr_db"] if which == 1 else case["snr_db2"]
            ch = retarget(LaplacianChannel(snr_db=_snr_arg(case, other(S, True) if rc else S)), "snr_db", _snr_arg(case, S))
            return (lambda s: (ch(s), s)), ("snr", S)
        if kind == "lap_scale":
            b = math.sqrt((case["power"] if which == 1 else case["power2"]) / 2.0)
            ch = LaplacianChannel(scale=b)
            return (lambda s: (ch(s), s)), ("scale", b)
        if kind == "nonlin_power":
            P = case["power"] if which == 1 else case["power2"]
            f = NONLIN[case["nonlin"]]
            ch = NonlinearChannel(f, add_noise=True, avg_noise_power=P, complex_mode=case["complex_mode"])
            ch0 = NonlinearChannel(f, add_noise=False, complex_mode=case["complex_mode"])
            return (lambda s: (ch(s), ch0(s))), ("power", P)
        if kind == "nonlin_snr":
            S = case["snr_db"] if which == 1 else case["snr_db2"]
            f = NONLIN[case["nonlin"]]
            ch = NonlinearChannel(f, add_noise=True, snr_db=_snr_arg(case, S), complex_mode=case["complex_mode"])
            ch0 = NonlinearChannel(f, add_noise=False, complex_mode=case["complex_mode"])
            return (lambda s: (ch(s), ch0(s))), ("snr", S)
        if kind in ("fading_power", "fading_snr"):
            kw = {"avg_noise_power": (case["power"] if which == 1 else case["power2"])} if kind == "fading_power" else {"snr_db": (case["snr_db"] if which == 1 else case["snr_db2"])}
            ft = case["fading"]
            kw0 = {k_: (other(v_, k_ == "snr_db") if rc else v_) for k_, v_ in kw.items()}
            ch = FlatFadingChannel(ft, coherence_time=7, k_factor=2.0 if ft == "rician" else None, shadow_sigma_db=4.0 if ft == "lognormal" else None, **kw0)
            for k_, v_ in kw.items():
                retarget(ch, k_, v_)
            g = torch.Generator().manual_seed(case["data_seed"] ^ 0x5A5A)
            B = case["shape"][0] if len(case["shape"]) > 1 else 1
            Lh = n // B
            h = torch.complex(torch.randn(B, Lh, generator=g), torch.randn(B, Lh, generator=g)) * (0.5 ** 0.5)

            def run(s):
                y = ch(s, csi=h)
                s2 = s.reshape(B, Lh)
                faded = (h * (s2 if torch.is_complex(s2) else torch.complex(s2, torch.zeros_like(s2)))).reshape(y.shape)
                return y, faded

            return run, (("power", kw["avg_noise_power"]) if kind == "fading_power" else ("snr", kw["snr_db"]))
        if kind == "add_noise_for_snr":
            S = case["snr_db"] if which == 1 else case["snr_db2"]

            def run(s):
                noisy, noise = ksnr.add_noise_for_snr(s, _snr_arg(case, S) if case["snr_as"] != "int" else S, dim=case["dim"])
                if not torch.equal(noisy, s + noise):
                    violate("returned_noise", "add_noise_for_snr: returned noisy signal is not signal + returned noise")
                return noisy, s

            return run, ("snr", S)
        raise core.HarnessError(kind)

    if kind == "awgn_verbatim":
        g = torch.Generator().manual_seed(case["data_seed"] ^ 0x77)
        nd = case.get("noise_dtype", "same")
        ndt = torch.float64 if nd == "wider" else DT[case["dtype"]]
        nz = torch.randn(x.shape, generator=g, dtype=ndt) * math.sqrt(case["power"])
        if cplx or nd == "complex":
            nz = torch.complex(nz, torch.randn(x.shape, generator=g, dtype=ndt))
        res.probes[f"verbatim_noise.dtype_{nd}"] += 1
        for ch in (AWGNChannel(avg_noise_power=case["power2"]), AWGNChannel(snr_db=case["snr_db"])):
            torch.manual_seed(case["torch_seed"])
            y = ch(x, noise=nz)
            want = x + nz  # verbatim: ordinary tensor addition, with its type promotion
            if y.dtype != want.dtype or y.shape != want.shape or not torch.equal(y, want):
                violate("verbatim_noise", f"channel(x, noise=n) is not exactly x + n (x {x.dtype}, n {nz.dtype}: got {y.dtype}, x + n is {want.dtype}; max |difference| {float((y.to(want.dtype) - want).abs().max()) if y.shape == want.shape else 'shape differs'})", noise_dtype=nd)
        log.add("verbatim", y)
        res.probes["verbatim_noise_cases"] += 1
        if not torch.equal(x, x0):
            violate("input_modified", "the input tensor was modified")
        res.digest, res.n_events = log.digest(), len(log)
        return res

    run1, (ckind, cval) = build(1)
    run2, (_, cval2) = build(2)
    if case.get("noncontig") and x.dim() >= 2 and not kind.startswith("fading"):
        x = x.transpose(0, -1).contiguous().transpose(0, -1)  # same values, non-contiguous memory
        x0 = x.clone()
        res.probes["input.noncontiguous"] += 1
    if case.get("warmup") and not kind.startswith("fading"):
        # an earlier call on the same channel objects with another shape and power (stale caches would show)
        gw = torch.Generator().manual_seed(case["data_seed"] ^ 0x99)
        w = torch.randn(case["warmup"], generator=gw, dtype=DT[case["dtype"]]) * 7.0
        if cplx:
            w = torch.complex(w, w.flip(-1))
        torch.manual_seed(case["torch_seed"] ^ 0x4321)
        for _ in range(case.get("warmup_n", 1)):
            run1(w)
            run2(w)
            res.faults["history.earlier_call_on_same_object"] += 1
    gm = case.get("grad_mode", "grad")
    ctx = {"grad": contextlib.nullcontext, "no_grad": torch.no_grad, "inference": torch.inference_mode}[gm]
    res.probes[f"autograd_mode.{gm}"] += 1
    if case.get("imag_zero"):
        res.probes["signal.real_valued_in_complex_tensor"] += 1
    with ctx():
        torch.manual_seed(case["torch_seed"])
        y1, s1 = run1(x)
        torch.manual_seed(case["torch_seed"])
        y2, s2 = run2(x)
    if not torch.equal(x, x0):
        violate("input_modified", "the input tensor was modified")
    if list(y1.shape) != list(x.shape):
        violate("shape", f"output shape {list(y1.shape)} differs from input shape {list(x.shape)}")
        res.digest, res.n_events = log.digest(), len(log)
        return res
    n1 = (y1 - s1)
    n2 = (y2 - s2)
    log.add("noise1", n1)
    log.add("noise2", n2)
    res.nontrivial.append(core.short_hash(case))
    res.faults["noise_samples_drawn"] += 2 * n
    per_row = kind == "add_noise_for_snr" and case["dim"] == -1 and len(case["shape"]) >= 2

    # ---------------------------------------------------------------- a second use right after the first (no reseeding)
    if n >= 200000 and kind != "add_noise_for_snr":
        y1b, s1b = run1(x)
        n1b = y1b - s1b
        a_ = torch.view_as_real(n1).reshape(-1).double() if torch.is_complex(n1) else n1.reshape(-1).double()
        b_ = torch.view_as_real(n1b).reshape(-1).double() if torch.is_complex(n1b) else n1b.reshape(-1).double()
        pa, pb = float((a_ * a_).mean()), float((b_ * b_).mean())
        if pa > 0 and pb > 0:
            corr = float((a_ * b_).mean()) / math.sqrt(pa * pb)
            res.probes["stat.cross_call_tests"] += 1
            okc, dc = stats.normal_test(corr, 0.0, math.sqrt((3.0 if laplace else 1.0) / a_.numel()), 1e-4)
            if not okc:
                violate("noise_repeats_across_calls", f"the noise of two consecutive uses of one channel object is correlated: {dc}", stat=True)
    # ---------------------------------------------------------------- exact: same-seed scaling relation
    ps1 = _pw(s1)
    if ckind == "power":
        want_ratio = math.sqrt(cval2 / cval)
    elif ckind == "scale":
        want_ratio = cval2 / cval
    else:
        want_ratio = math.sqrt(10 ** ((cval - cval2) / 10.0))
    a = torch.view_as_real(n1).reshape(-1).double() if torch.is_complex(n1) else n1.reshape(-1).double()
    b = torch.view_as_real(n2).reshape(-1).double() if torch.is_complex(n2) else n2.reshape(-1).double()
    sd_a = float(a.pow(2).mean().sqrt())
    keep = a.abs() > 0.05 * sd_a
    if int(keep.sum()) >= 1 and sd_a > 0:
        r = (b[keep] / a[keep])
        rmean = float(r.mean())
        rdev = float((r - rmean).abs().max())
        # precision of the ratio: the noise is read back as (y - s) in the signal's float format
        eps = 2.0 ** -23 if case["dtype"] == "float32" else 2.0 ** -52
        amp_s = float(max(_abs_max(s1), _abs_max(y1), _abs_max(y2)))
        tol = 40 * eps * amp_s / (0.05 * sd_a) * max(1.0, want_ratio) + 1e-4 * abs(rmean)
        if rdev <= tol + 1e-3 * abs(rmean):
            res.probes["scaling_relation.applicable"] += 1
            if abs(rmean - want_ratio) > 1e-3 * want_ratio + tol:
                violate("scaling", f"same seed, configured {ckind} {cval:g} vs {cval2:g}: noise2/noise1 = {rmean:.6g}, expected {want_ratio:.6g}")
        else:
            res.probes["scaling_relation.not_applicable"] += 1

    # ---------------------------------------------------------------- statistical: mean, power, SNR
    if n >= 200000 and not per_row:
        if ckind == "power":
            P = cval
        elif ckind == "scale":
            P = 2 * cval * cval * (2 if cplx else 1)
        else:
            P = ps1 / (10 ** (cval / 10.0))
        if ckind == "scale" and cplx:
            pass  # the property fixes no total power for an explicit per-component scale on complex input
        else:
            kfac = (2.5 if cplx else 5.0) if laplace else (1.0 if (cplx or comp == "FlatFadingChannel") else 2.0)
            sdP = P * math.sqrt(kfac / n)
            slack = 3e-4 * P if laplace else 1e-5 * P
            got = _pw(n1)
            # the noise is observed through float rounding of y: add the rounding-noise floor
            eps = 2.0 ** -24 if case["dtype"] == "float32" else 2.0 ** -53
            slack += 4 * (eps * float(_abs_max(y1))) ** 2 + 4 * eps * float(_abs_max(y1)) * math.sqrt(P)
            ok, d = stats.normal_test(got, P, sdP, slack)
            res.probes["stat.power_tests"] += 1
            if not ok:
                violate("noise_power", f"measured noise power vs configured ({ckind}={cval:g} => expected power {P:.6g}): {d}", stat=True)
            if ckind == "snr" and got > 0:
                snr_meas = 10 * math.log10(ps1 / got)
                sd_db = (10 / math.log(10)) * (sdP / P)
                ok, d = stats.normal_test(snr_meas, cval, sd_db, 2e-3 + (10 / math.log(10)) * slack / P)
                res.probes["stat.snr_tests"] += 1
                if not ok:
                    violate("snr", f"measured SNR vs configured: {d} dB", stat=True)
                # the library's own tools must return the configured value too
                tool = float(ksnr.calculate_snr(s1, y1))
                ok, d = stats.normal_test(tool, cval, sd_db, 5e-3 + (10 / math.log(10)) * slack / P)
                if not ok:
                    violate("snr_tool", f"calculate_snr(signal, output) vs configured SNR: {d} dB", stat=True)
        # zero mean, each part
        parts = [n1.real, n1.imag] if torch.is_complex(n1) else [n1]
        Ppart = _pw(n1) / len(parts)
        for nm, p_ in zip(("real", "imag"), parts):
            m = float(p_.double().mean())
            ok, d = stats.normal_test(m, 0.0, math.sqrt(max(Ppart, 1e-300) / n) * 1.5, 1e-6 * math.sqrt(max(Ppart, 0.0)) + 2.0 ** -22 * float(_abs_max(y1)))
            res.probes["stat.mean_tests"] += 1
            if not ok:
                violate("mean", f"noise {nm}-part mean is not zero: {d}", stat=True)
        if cplx and not (ckind == "scale"):
            # power split evenly over real and imaginary parts (circular noise)
            pr, pi = _pw(n1.real), _pw(n1.imag)
            kf = 5.0 if laplace else 2.0
            ok, d = stats.normal_test(pr - pi, 0.0, (pr + pi) / 2 * math.sqrt(2 * kf / n), 1e-4 * (pr + pi))
            if not ok:
                violate("split", f"noise power is not split evenly between real and imaginary parts: {d}", stat=True)
    elif per_row and n >= 200000:
        # add_noise_for_snr(dim=-1): SNR per row
        rows = s1.reshape(-1, s1.shape[-1])
        nr = n1.reshape(-1, n1.shape[-1])
        Lr = rows.shape[-1]
        if Lr >= 4096:
            for i in range(min(rows.shape[0], 8)):
                ps, pn = _pw(rows[i]), _pw(nr[i])
                sd_db = (10 / math.log(10)) * math.sqrt((1.0 if cplx else 2.0) / Lr)
                ok, d = stats.normal_test(10 * math.log10(ps / pn), cval, sd_db, 2e-3)
                res.probes["stat.snr_tests"] += 1
                if not ok:
                    violate("snr", f"row {i}: measured per-row SNR vs configured: {d} dB", stat=True, per_row=True)

    # ---------------------------------------------------------------- exact: the library's SNR tools agree with the definition
    pn1 = _pw(n1)
    if pn1 > 0 and ps1 > 0 and n >= 16:
        direct = 10 * math.log10(ps1 / pn1)
        regime = "noise_power_below_1e-3" if pn1 < 1e-3 else "normal"
        tools = [("calculate_snr", lambda: float(ksnr.calculate_snr(s1, y1))),
                 ("SignalToNoiseRatio", lambda: float(SignalToNoiseRatio()(s1.reshape(-1), y1.reshape(-1)))),
                 ("StandardMetrics.signal_to_noise_ratio", lambda: StandardMetrics.signal_to_noise_ratio(s1, y1 - s1)),
                 ("noise_power_to_snr", lambda: float(ksnr.noise_power_to_snr(torch.tensor(ps1), torch.tensor(pn1))))]
        res.probes["snr_tool_agreement_checks"] += 1
        res.probes[f"snr_tool_agreement.{regime}"] += 1
        # the tools work in the signal's float format: allow its resolution on the two powers
        tol = 2e-3 + 2e-4 * abs(direct)
        for nm, f in tools:
            t = f()
            if not (abs(t - direct) <= tol):
                violate("snr_definition", f"{nm} = {t:.5f} dB but 10*log10(mean|x|^2/mean|y-x|^2) = {direct:.5f} dB (signal power {ps1:.4g}, noise power {pn1:.4g})", tool=nm, noise_regime=regime)
        if s1.dim() > 1 and 1 < s1.shape[0] <= 64:
            per = SignalToNoiseRatio()(s1, y1)
            for i in range(min(s1.shape[0], 4)):
                psi, pni = _pw(s1[i]), _pw((y1 - s1)[i])
                if pni > 0 and psi > 0:
                    di = 10 * math.log10(psi / pni)
                    if not (abs(float(per[i]) - di) <= 2e-3 + 2e-4 * abs(di)):
                        violate("snr_definition", f"SignalToNoiseRatio item {i} = {float(per[i]):.5f} dB but the definition gives {di:.5f} dB (noise power {pni:.4g})", tool="SignalToNoiseRatio", noise_regime="noise_power_below_1e-3" if pni < 1e-3 else "normal")
                        break
    res.digest, res.n_events = log.digest(), len(log)
    return res


def _abs_max(t):
    return t.abs().max() if t.numel() else torch.tensor(0.0)


def _conversions(case, res, log, violate):
    """dB <-> linear <-> noise-power conversions on a dense grid (scalar and tensor forms)."""
    rng = core.rng_for(case["data_seed"])
    grid = [rng.uniform(-20, 40) for _ in range(200)] + [-20.0, -10.0, -3.0, 0.0, 3.0, 10.0, 20.0, 40.0]
    sp = case["sig_power"]
    bad = 0
    for s in grid:
        lin = 10 ** (s / 10.0)
        a = float(ksnr.snr_db_to_linear(s))
        b = float(ksnr.snr_linear_to_db(lin))
        c = float(ksnr.snr_to_noise_power(sp, s))
        d = float(ksnr.noise_power_to_snr(sp, sp / lin))
        e = float(ksnr.snr_linear_to_db(ksnr.snr_db_to_linear(torch.tensor(s))))
        for nm, got, want, rel in (("snr_db_to_linear", a, lin, 1e-5), ("snr_to_noise_power", c, sp / lin, 1e-5)):
            if abs(got - want) > rel * abs(want):
                violate("conversion", f"{nm}({s:.4f} dB) = {got!r}, expected {want!r}", tool=nm)
                bad += 1
        for nm, got, want in (("snr_linear_to_db", b, s), ("noise_power_to_snr", d, s), ("db->linear->db", e, s)):
            if abs(got - want) > 1e-3:
                violate("conversion", f"{nm}: got {got!r} dB, expected {want!r} dB", tool=nm)
                bad += 1
        if bad > 3:
            break
    # a caller may work in place on what a conversion returned; later conversions must not be affected
    for s_ in grid[:40]:
        for f_, arg in ((ksnr.snr_db_to_linear, s_), (ksnr.snr_linear_to_db, 10 ** (s_ / 10.0)), (lambda v: ksnr.snr_to_noise_power(sp, v), s_), (lambda v: ksnr.noise_power_to_snr(sp, sp / 10 ** (v / 10.0)), s_)):
            r1 = f_(arg)
            v1 = float(r1)
            if isinstance(r1, torch.Tensor):
                with torch.no_grad():
                    r1.mul_(0).add_(123.0)
            v2 = float(f_(arg))
            if v1 != v2:
                violate("conversion", f"a conversion of {arg!r} returned {v1!r}, and {v2!r} after the caller had modified the first result in place", tool="result_aliases_internal_state")
                bad += 1
                break
        if bad:
            break
    t = torch.tensor(grid, dtype=torch.float64)
    lin_t = ksnr.snr_db_to_linear(t)
    back = ksnr.snr_linear_to_db(lin_t)
    if float((back - t).abs().max()) > 1e-6:
        violate("conversion", "tensor form: snr_linear_to_db(snr_db_to_linear(t)) != t", tool="tensor_roundtrip")
    npw = ksnr.snr_to_noise_power(torch.full_like(t, sp), t)
    if float(((npw.double() * lin_t) / sp - 1).abs().max()) > 1e-5:
        violate("conversion", "tensor form: snr_to_noise_power(P, t) * linear(t) != P", tool="tensor_noise_power")
    log.add("conversions", {"n": len(grid), "bad": bad})
    res.probes["conversion_grid_cases"] += 1


def shrink_key(sig):
    return (sig.get("component"), sig.get("kind"), sig.get("mode"), sig.get("tool"))


def shrink_candidates(case: dict):
    for shp in ([16], [1000], [1 << 18]):
        n_new = 1
        for s in shp:
            n_new *= s
        n_old = 1
        for s in case["shape"]:
            n_old *= s
        if n_new < n_old:
            c = copy.deepcopy(case)
            c["shape"] = shp
            yield c
    for k, v in (("dtype", "float32"), ("signal", "gauss"), ("snr_as", "float"), ("dim", None), ("grad_mode", "grad"), ("imag_zero", False)):
        if case.get(k) != v:
            c = copy.deepcopy(case)
            c[k] = v
            yield c
    if case["complex"]:
        c = copy.deepcopy(case)
        c["complex"] = False
        yield c


if __name__ == "__main__":
    from sim import runner

    sys.exit(runner.main(sys.modules[__name__]))
