#!/venv/bin/python
"""Sensitivity self-test (DESIGN §2.7): deliberate one-line breakages per claimed property.

Each entry is applied to a scratch worktree of /repo under /tmp (removed afterwards); the
check is run against it (PYTHONPATH puts the worktree before the editable install) with a
reduced batch, and must report a VIOLATION (exit 1).  A breakage that the check does not see
means the workload is blind there.  Developer tool: not part of any registered command.

    selftest_sensitivity.py [--only C17,C16] [--jobs 4]
"""

from __future__ import annotations

import argparse
import json
import os
import shutil
import subprocess
import sys
import tempfile
import time
from concurrent.futures import ThreadPoolExecutor

HERE = os.path.dirname(os.path.abspath(__file__))
VERIF = os.path.dirname(HERE)
REPO = "/repo"

# (id, property, file, old, new, what)
TABLE = [
    ("s01", "C17", "kaira/models/generic/parallel.py", "        results = {name: results[name] for name, _ in self.step_configs if name in results}\n", "", "gather results in completion order again (revert of the fix)"),
    ("s02", "C17", "kaira/models/generic/sequential.py", "            result = step(result, *args, **kwargs)  # Pass *args and **kwargs to each step", "            result = step(result, *args, **kwargs)\n            kwargs = {}", "keyword arguments forwarded to the first stage only"),
    ("s03", "C17", "kaira/models/generic/branching.py", "            if condition_result:\n                output = model(x, *args, **kwargs)\n                return (output, name) if return_branch else output", "            if condition_result:\n                chosen = (name, model)\n        if self.branches and 'chosen' in locals():\n            name, model = chosen\n            output = model(x, *args, **kwargs)\n            return (output, name) if return_branch else output", "last true branch wins instead of the first"),
    ("s04", "C17", "kaira/models/feedback_channel.py", "        for i in range(self.max_iterations):", "        for i in range(max(self.max_iterations, 2) if self.max_iterations > 1 else self.max_iterations):\n            if i == 4:\n                break", "feedback loop stops after four rounds"),
    ("s05", "C17", "kaira/models/multiple_access_channel.py", "            encoded_signals.append(encoder(x[i], *args, **kwargs))", "            encoded_signals.append(self.power_constraint(encoder(x[i], *args, **kwargs)) if self.num_users > 3 else encoder(x[i], *args, **kwargs))", "MAC constrains each user before summing when there are more than three users"),
    ("s06", "C16", "kaira/metrics/signal/ber.py", "        self.total_bits.zero_()\n        self.error_bits.zero_()", "        self.total_bits.zero_()", "BitErrorRate.reset forgets the error counter"),
    ("s07", "C16", "kaira/metrics/signal/bler.py", "        self.total_blocks += block_has_error.numel()", "        self.total_blocks += x_blocks.shape[0] * max(1, x_blocks.shape[1])  if x.dim() < 3 else x.shape[0]", "BlockErrorRate.update counts rows instead of blocks for 3-D batches"),
    ("s08", "C16", "kaira/metrics/signal/ber.py", "            batch_bits = x.numel() * 2", "            batch_bits = x.numel()", "complex BER accumulates numel instead of 2*numel"),
    ("s09", "C07", "kaira/channels/analog.py", "        noise = torch.randn_like(x) * torch.sqrt(noise_power)", "        noise = torch.randn_like(x) * noise_power", "sqrt(P) -> P for real AWGN"),
    ("s10", "C07", "kaira/utils/snr.py", "    return 10 ** (snr_db / 10.0)", "    return 10 ** (snr_db / 20.0)", "dB/20 in snr_db_to_linear"),
    ("s11", "C12", "kaira/channels/digital.py", "        flips = (noise < self.crossover_prob).float()", "        flips = (noise <= 1 - self.crossover_prob).float()", "BSC flips with probability 1-p"),
    ("s12", "C12", "kaira/channels/digital.py", "                y[ones_mask] = torch.where(random_values < self.error_prob,", "                y[ones_mask] = torch.where(random_values < self.error_prob * self.error_prob,", "Z-channel applies the error probability twice (p^2)"),
    ("s13", "C12", "kaira/channels/digital.py", "        erasure_mask = torch.rand_like(x.float()) < self.erasure_prob", "        erasure_mask = (torch.rand_like(x.float()[..., :1, :]) < self.erasure_prob).expand_as(x) if x.dim() >= 2 else torch.rand_like(x.float()) < self.erasure_prob", "one erasure mask broadcast over rows"),
    ("s14", "C13", "kaira/channels/analog.py", "        block_indices = torch.arange(seq_length, device=device) // self.coherence_time", "        block_indices = torch.arange(seq_length, device=device) % h.shape[1]", "// coherence_time -> % in the block expansion"),
    ("s15", "C13", "kaira/channels/analog.py", "            h = torch.complex(h_real, h_imag) / (2**0.5)\n\n        elif self.fading_type == \"rician\":", "            h = torch.complex(h_real, h_imag)\n\n        elif self.fading_type == \"rician\":", "Rayleigh without the 1/sqrt(2)"),
    ("s16", "C13", "kaira/channels/analog.py", "            h_blocks = self._generate_fading_coefficients(batch_size, seq_length, device)", "            h_blocks = self._generate_fading_coefficients(1, seq_length, device).expand(batch_size, -1)", "the same gain for every batch item"),
    ("s17", "C02", "kaira/models/fec/decoders/syndrome_lookup.py", "        for weight in range(1, self.code_length + 1):", "        for weight in range(1, max(2, self.code_length // 8 + 1)):", "syndrome table built some weights short for longer codes"),
    ("s18", "C09", "kaira/models/fec/encoders/hamming_code.py", "                y_reshaped[i, p] = 1 - y_reshaped[i, p]", "                y_reshaped[i, p] = 1 - y_reshaped[i, p] if p != self.code_length - 1 else y_reshaped[i, p]", "Hamming inverse never corrects the last position"),
    ("s19", "C05", "kaira/modulations/oqpsk.py", "        delayed_quad = torch.cat([prev_quad.unsqueeze(-1), quad[..., :-1]], dim=-1)", "        delayed_quad = torch.cat([prev_quad.unsqueeze(-1), quad[..., :-1]], dim=-1) if quad.shape[-1] < 3 else torch.cat([prev_quad.unsqueeze(-1), prev_quad.unsqueeze(-1), quad[..., :-2]], dim=-1)", "OQPSK delays the quadrature stream by two symbols for sequences of three or more symbols"),
    ("s20", "C05", "kaira/modulations/dpsk.py", "        self._phase_memory = torch.tensor(1.0 + 0.0j)", "        self._phase_memory = self._phase_memory / self._phase_memory.abs()", "DPSK reset_state keeps the phase"),
    ("s21", "C20", "kaira/constraints/power.py", "                current_power = torch.sum(x_reshaped**2, dim=1, keepdim=True)\n\n            # Handle zero signals in a vectorized way\n            zero_mask = current_power < 1e-10\n\n            # Compute scaling factors for all batch items at once\n            scale = torch.sqrt(self.total_power / (current_power + 1e-8))", "                current_power = torch.sum(x_reshaped**2, dim=1, keepdim=True)\n            if batch_size > 4:\n                current_power = current_power.mean(dim=0, keepdim=True).expand_as(current_power)\n\n            # Handle zero signals in a vectorized way\n            zero_mask = current_power < 1e-10\n\n            # Compute scaling factors for all batch items at once\n            scale = torch.sqrt(self.total_power / (current_power + 1e-8))", "a batch-level mean power leaks into per-item scaling for batches > 4"),
    ("s22", "C20", "kaira/models/fec/decoders/brute_force_ml.py", "            min_idx = torch.argmin(distances)", "            min_idx = torch.argmin(distances) if i != 2 else torch.argmin(distances.flip(0))", "ML decoder takes a different branch for batch row 2"),
]


def run_one(entry, runs):
    sid, prop, path, old, new, what = entry
    wt = tempfile.mkdtemp(prefix=f"sens-{sid}-", dir="/tmp")
    os.rmdir(wt)
    t0 = time.time()
    try:
        subprocess.run(["git", "-C", REPO, "worktree", "add", "-q", "--detach", wt, "HEAD"], check=True, capture_output=True)
        f = os.path.join(wt, path)
        src = open(f).read()
        if src.count(old) != 1:
            return sid, prop, what, "SITE-NOT-FOUND", 0.0
        open(f, "w").write(src.replace(old, new))
        env = dict(os.environ, PYTHONPATH=wt, VERIF_WORKERS="4")
        cmd = [sys.executable, os.path.join(HERE, f"{prop.lower()}.py"), "--tier", "quick", "--no-evidence", "--workers", "4"]
        if runs:
            cmd += ["--runs", str(runs)]
        p = subprocess.run(cmd, env=env, capture_output=True, text=True, timeout=1800, cwd=VERIF)
        hit = p.returncode == 1 and "VIOLATION property=" in p.stdout
        first = next((l for l in p.stdout.splitlines() if l.startswith("violation (")), "")[:160]
        return sid, prop, what, ("CAUGHT" if hit else f"MISSED(exit {p.returncode})"), time.time() - t0, first
    finally:
        subprocess.run(["git", "-C", REPO, "worktree", "remove", "--force", wt], capture_output=True)
        shutil.rmtree(wt, ignore_errors=True)


def main():
    ap = argparse.ArgumentParser()
    ap.add_argument("--only")
    ap.add_argument("--jobs", type=int, default=4)
    ap.add_argument("--runs", type=int, default=0, help="override the quick batch size (0 = the check's own quick size)")
    a = ap.parse_args()
    table = [e for e in TABLE if not a.only or e[1] in a.only.split(",") or e[0] in a.only.split(",")]
    out = []
    with ThreadPoolExecutor(max_workers=a.jobs) as ex:
        for r in ex.map(lambda e: run_one(e, a.runs), table):
            print(f"{r[0]} {r[1]} {r[3]:>18} {r[4]:6.1f}s  {r[2]}" + (f"\n      {r[5]}" if len(r) > 5 and r[5] else ""), flush=True)
            out.append(r)
    missed = [r for r in out if r[3] != "CAUGHT"]
    print(f"sensitivity: {len(out) - len(missed)} of {len(out)} deliberate breakages caught")
    json.dump([{"id": r[0], "property": r[1], "what": r[2], "result": r[3]} for r in out], open(os.path.join(VERIF, "seeded", "sensitivity_last.json"), "w"), indent=1)
    return 1 if missed else 0


if __name__ == "__main__":
    os.makedirs(os.path.join(VERIF, "seeded"), exist_ok=True)
    sys.exit(main())
