#!/venv/bin/python
"""C16 — error-rate metrics are exact counts; the streaming form is partition-independent.

Engine E3 `histsim`: one long-lived metric object, a seeded delivery layer that fragments,
coalesces and reorders a stream of row pairs into update() calls and interleaves compute() and
reset(); reference model = two Python integers.  One-shot clauses (exact fraction, symmetry,
zero iff equal, BER<=BLER<=min(1,B*BER), helper agreement) are per-step checks in the same runs.
"""

from __future__ import annotations

import os
import sys

sys.path.insert(0, os.path.dirname(os.path.dirname(os.path.abspath(__file__))))

import copy

import torch

from sim import core
from sim.core import EventLog, RunResult, Violation
from sim.shrink import list_ddmin

from kaira.benchmarks.metrics import StandardMetrics
from kaira.metrics.registry import MetricRegistry
from kaira.metrics.signal import ber as ber_mod
from kaira.metrics.signal import bler as bler_mod

PROPERTY = "C16"
ENGINE = "histsim"
LEVEL = "exploration"
TIERS = {
    "quick": {"runs": 12000, "budget_s": 300, "chunk": 250},
    "thorough": {"runs": 1000000, "budget_s": 3000, "chunk": 2000},
}
SELFTEST_N = 96
RULE = (
    "one case = (metric class/alias/registry name, block size, real/complex, dtype, row length, pool of row pairs incl. adversarial rows, "
    "op list of update(chunk of rows, layout)/compute/reset/oneshot/helper/reject/bigupdate); generated from run_seed=H(C16,VERIF_SEED,index). "
    "Distinct = hash of (metric config, op list with chunk contents). Non-trivial = >=2 updates of unequal size, or a compute/reset strictly "
    "inside the history, or a big-update followed by small updates."
)
ASSUMPTIONS = [
    "reference model: two Python integers (errors, total) over everything delivered since the last reset",
    "float32 return values compared with relative tolerance 2e-6 (+1e-9 absolute)",
    "splits/reorderings are along the batch dimension only (the concatenation the property speaks of)",
    "nothing is asserted about a metric object after a rejected call, nor about forward() touching the accumulators",
]
COMPONENTS_REAL = ["BitErrorRate", "BlockErrorRate (+ SymbolErrorRate/FrameErrorRate/BLER/SER/FER aliases, registry names ber/bler/fer/ser)", "StandardMetrics.bit_error_rate", "StandardMetrics.block_error_rate"]
COMPONENTS_STUB = ["delivery layer between the data stream and the metric (simulator-owned)", "reference counter"]

DT = {"float32": torch.float32, "float64": torch.float64, "int64": torch.int64, "int32": torch.int32, "uint8": torch.uint8, "int8": torch.int8,
      "float16": torch.float16, "bfloat16": torch.bfloat16, "bool": torch.bool}
CORE_DTYPES = ("float32", "float64", "int64", "complex64")  # every other dtype may be rejected by a metric (never counted wrongly)
BLER_ALIASES = ["BlockErrorRate", "BLER", "SymbolErrorRate", "FrameErrorRate", "FER", "SER"]


# ----------------------------------------------------------------------------- generation


def _rand_bits(rng, n):
    return [rng.randrange(2) for _ in range(n)]


def gen_case(run_seed: int, index: int, tier: str) -> dict:
    rng = core.rng_for(run_seed)
    if tier == "thorough" and index % 400000 == 21:
        # counters beyond 2**31: a symbol-error-rate run of 17 updates of 2**27 symbols each (thorough tier only: ~30 s, ~1 GB)
        return {"metric": "wrap", "updates": 17, "symbols_per_update": 1 << 27, "errors_every": rng.choice([1000, 4096]), "complex": False, "dtype": "int8",
                "L": 1 << 27, "block": 1, "how": "class", "ops": [], "X": [], "Y": []}
    if index % 3000 == 33:
        # one call that carries more than 2**24 erroneous one-symbol blocks (an odd number: not representable in float32)
        return {"metric": "bigser", "symbols": (1 << 24) + rng.choice([1, 3, 77]), "complex": False, "dtype": "int8", "L": 1, "block": 1, "how": "class", "ops": [], "X": [], "Y": []}
    metric = rng.choice(["ber", "bler", "bler", "pair"])
    cplx = rng.random() < 0.25
    L = rng.choice([1, 2, 3, 4, 6, 8, 12, 16, 24, 30, 30, 64, 100, 128, 255, 1000])
    divisors = [d for d in range(1, L + 1) if L % d == 0]
    block = rng.choice(divisors + [None]) if metric != "ber" else None
    case = {
        "metric": metric,
        "complex": cplx,
        # hard decisions arrive in whatever dtype the caller keeps them in (comparison results are bool, packed bits uint8, ...)
        "dtype": rng.choice(["float32", "float32", "float32", "float64", "int64", "int32", "uint8", "int8", "float16", "bfloat16", "bool", "bool"]) if not cplx else "complex64",
        "L": L,
        "block": block,
        "how": rng.choice(["class", "alias", "registry"]),
        "alias": rng.choice(BLER_ALIASES),
        "regname": rng.choice(["bler", "fer", "ser"]),
    }
    npool = rng.randrange(2, 14) if L <= 64 else rng.randrange(2, 6)
    width = L * (2 if cplx else 1)
    X, Y = [], []
    for _ in range(npool):
        x = _rand_bits(rng, width)
        r = rng.random()
        if r < 0.25:
            y = list(x)  # all equal
        elif r < 0.35:
            y = [1 - b for b in x]  # all different
        elif r < 0.6:
            y = list(x)
            p = rng.randrange(width)
            y[p] = 1 - y[p]  # a single difference walked across positions
        else:
            pe = rng.choice([0.02, 0.1, 0.5])
            y = [b ^ (1 if rng.random() < pe else 0) for b in x]
        X.append(x)
        Y.append(y)
    case["X"], case["Y"] = X, Y
    # persistent transmit/receive buffers refilled in place for every call (instead of fresh tensors)
    case["buffers"] = rng.random() < 0.25
    ops = []
    nops = rng.choice([2, 3, 4, 6, 10, 20, 40]) if tier == "quick" else rng.choice([3, 6, 10, 20, 40, 80, 200])
    p_compute = rng.choice([0.1, 0.25, 0.5])
    p_reset = rng.choice([0.0, 0.05, 0.2])
    for _ in range(nops):
        r = rng.random()
        if r < p_reset:
            # half of the resets are not followed by a read-out (reading is an operation too: it may refresh what an object remembers)
            ops.append(["reset", "quiet"] if rng.random() < 0.5 else ["reset"])
        elif r < p_reset + p_compute:
            ops.append(["compute"])
        elif r < p_reset + p_compute + 0.08:
            ops.append(["oneshot", [rng.randrange(npool) for _ in range(rng.randrange(1, 5))]])
        elif r < p_reset + p_compute + 0.12:
            ops.append(["helper", rng.randrange(npool)])
        elif r < p_reset + p_compute + 0.125:
            # the one-shot form on the LIVE object: documented as a per-batch computation, it must leave the accumulation alone
            ops.append(["oneshot_live", [rng.randrange(npool) for _ in range(rng.randrange(1, 5))]])
        elif r < p_reset + p_compute + 0.13 and L >= 3 and metric != "ber":
            nd = [b for b in range(2, L) if L % b != 0]
            if nd:
                # a rejected call on the live object; nothing is asked of it until the reset that follows
                ops.append(["reject_live", rng.choice(["update", "forward", "shape"]), rng.randrange(npool)])
                ops.append(["reset"])
        elif r < p_reset + p_compute + 0.1325 and L <= 64:
            # the two arguments are views of one buffer (a square matrix and its transpose; every other element vs a prefix)
            ops.append(["alias_pair", rng.choice(["transpose", "strided_vs_prefix"]), [rng.randrange(npool) for _ in range(L)]])
        elif r < p_reset + p_compute + 0.135:
            ops.append(["neutral", rng.choice(["eval", "train", "to_cpu", "float", "zero_grad", "state_dict_read", "str"])])
        elif r < p_reset + p_compute + 0.15 and L >= 3:
            nd = [b for b in range(2, L) if L % b != 0]
            if nd and metric != "ber":
                ops.append(["reject", rng.choice(nd), rng.randrange(npool)])
        else:
            rows = [rng.randrange(npool) for _ in range(rng.choice([1, 1, 2, 3, 5, 8, 17, 64]))]
            layout = rng.choice(["2d", "2d", "3d", "flat", "strided"])
            ops.append(["update", rows, layout])
            if not cplx and rng.random() < 0.06:
                # this one batch arrives in another dtype than the rest of the stream (e.g. raw comparison results)
                ops[-1].append(rng.choice(["bool", "bool", "uint8", "int8", "int32", "float16", "bfloat16", "float64"]))
    long_stream = index % 1500 == 34  # every 1500th run (so the quick tier has eight): a long stream on an object that was reset before
    if long_stream or rng.random() < (0.004 if tier == "quick" else 0.002):
        # long stream: one huge update, then many small ones (float32 accumulation drift would show)
        if long_stream:
            if case["dtype"] not in CORE_DTYPES:
                case["dtype"] = "float32"
            ops = [op for op in ops if op[0] in ("update", "compute", "reset") and len(op) <= 3][:6] + [["reset"]]
        ops.insert(len(ops) if long_stream else rng.randrange(len(ops) + 1), ["bigupdate", rng.choice([17, 20]) * 1000 * 1000, rng.choice(["alldiff", "half", "equal"] if not long_stream else ["alldiff", "half"])])
        for _ in range(300):
            ops.append(["update", [rng.randrange(npool)], "2d"])
    if rng.random() < 0.15:
        # a second stream of exactly the same size as the first follows a reset (epoch after epoch of equal length), read out only
        # once it is complete: what it returns is the second stream's value, not the first one's
        nrow = rng.choice([1, 1, 2, 3, 5, 8])
        ops.append(["reset"])
        ops.append(["update", [rng.randrange(npool) for _ in range(nrow)], "2d"])
        ops.append(["compute"])
        ops.append(["reset", "quiet"])
        cut = rng.randrange(0, nrow)
        second = [rng.randrange(npool) for _ in range(nrow)]
        if cut:
            ops.append(["update", second[:cut], "2d"])
        ops.append(["update", second[cut:], rng.choice(["2d", "flat"])])
    ops.append(["compute"])
    case["ops"] = ops
    return case


# ----------------------------------------------------------------------------- execution


def _mk_tensor(case, rows, which, layout):
    L = case["L"]
    data = [case[which][r] for r in rows]
    if case["complex"]:
        t = torch.tensor(data, dtype=torch.float32).reshape(len(rows), L, 2)
        t = torch.complex(t[..., 0], t[..., 1])
    else:
        t = torch.tensor(data, dtype=DT[case["dtype"]]).reshape(len(rows), L)
    if layout == "3d":
        for a in (2, 3, 4):
            if L % a == 0:
                return t.reshape(len(rows), a, L // a)
    if layout == "strided":  # the same values behind a non-contiguous view
        big = torch.zeros(t.shape[0], 2 * t.shape[1], dtype=t.dtype)
        big[:, ::2] = t
        return big[:, ::2]
    return t


def _ref_counts(case, rows, block):
    """(bit errors, bits, block errors, blocks) for the given rows."""
    L = case["L"]
    w = 2 if case["complex"] else 1
    be = bt = ke = kt = 0
    for r in rows:
        x, y = case["X"][r], case["Y"][r]
        diff = [a != b for a, b in zip(x, y)]
        be += sum(diff)
        bt += len(diff)
        B = (block or L) * w
        for j in range(0, L * w, B):
            kt += 1
            ke += 1 if any(diff[j:j + B]) else 0
    return be, bt, ke, kt


def _make(case, kind):
    if kind == "ber":
        if case["how"] == "registry":
            return MetricRegistry.create("ber")
        return ber_mod.BER() if case["how"] == "alias" else ber_mod.BitErrorRate()
    if case["how"] == "registry":
        return MetricRegistry.create(case["regname"], block_size=case["block"])
    cls = getattr(bler_mod, case["alias"]) if case["how"] == "alias" else bler_mod.BlockErrorRate
    return cls(block_size=case["block"])


def _close(got: float, ref: float) -> bool:
    return abs(got - ref) <= 2e-6 * abs(ref) + 1e-9


def _execute_bigser(case, log, res):
    n = case["symbols"]
    x = torch.zeros(n, 1, dtype=torch.int8)
    y = torch.ones(n, 1, dtype=torch.int8)
    for form, (a, b) in (("(N,1) rows, block size 1", (x, y)), ("1-D, default block size", (x.reshape(-1), y.reshape(-1)))):
        m = bler_mod.BlockErrorRate(block_size=1) if a.dim() == 2 else bler_mod.SymbolErrorRate()
        try:
            m.update(a, b)
        except Exception:
            res.probes["bigser.layout_rejected"] += 1
            continue
        got = float(m.compute())
        one = float(m(a, b))
        log.add("bigser", {"n": n, "form": form, "stream": got, "oneshot": one})
        if got != 1.0 or one != 1.0:
            res.violations.append(Violation({"component": "BlockErrorRate", "kind": "streaming_value", "complex": False, "regime": "more_than_2^24_erroneous_blocks_in_one_call"},
                                            f"C16/BlockErrorRate: {n} symbols, all different, {form}: compute() after one update = {got!r}, metric(x, y) = {one!r}; both must be exactly 1.0"))
            break
        # the same data in two halves must give the same value
        m2 = bler_mod.BlockErrorRate(block_size=1) if a.dim() == 2 else bler_mod.SymbolErrorRate()
        h = n // 2
        m2.update(a[:h], b[:h])
        m2.update(a[h:], b[h:])
        if float(m2.compute()) != got:
            res.violations.append(Violation({"component": "BlockErrorRate", "kind": "partition", "complex": False, "regime": "more_than_2^24_erroneous_blocks_in_one_call"},
                                            f"C16/BlockErrorRate: {n} symbols fed at once give {got!r}, fed in two halves {float(m2.compute())!r}"))
            break
    res.nontrivial.append(core.short_hash(case))
    res.probes["more_than_2^24_error_blocks_in_one_call_cases"] += 1
    res.digest, res.n_events = log.digest(), len(log)
    return res


def _execute_wrap(case, log, res):
    m = bler_mod.BlockErrorRate(block_size=1)
    n = case["symbols_per_update"]
    x = torch.zeros(1, n, dtype=torch.int8)
    y = torch.zeros(1, n, dtype=torch.int8)
    y[0, :: case["errors_every"]] = 1
    errs_per = int(y.sum())
    tot = err = 0
    for u in range(case["updates"]):
        m.update(x, y)
        tot += n
        err += errs_per
        got = float(m.compute())
        if not _close(got, err / tot):
            res.violations.append(Violation({"component": "BlockErrorRate", "kind": "streaming_value", "complex": False, "regime": "beyond_2^31_blocks" if tot >= (1 << 31) else "large"},
                                            f"C16/BlockErrorRate: compute() = {got!r} after {u + 1} updates of 2^27 symbols; reference counter says {err}/{tot} = {err / tot!r}"))
            break
    log.add("wrap", {"updates": case["updates"], "total": tot, "errors": err})
    res.nontrivial.append(core.short_hash(case))
    res.probes["counter_beyond_2^31_cases"] += 1
    res.digest, res.n_events = log.digest(), len(log)
    return res


def execute(case: dict) -> RunResult:
    log = EventLog()
    res = RunResult()
    if case.get("metric") == "wrap":
        return _execute_wrap(case, log, res)
    if case.get("metric") == "bigser":
        return _execute_bigser(case, log, res)
    log.add("case", {k: case[k] for k in ("metric", "complex", "dtype", "L", "block", "how")})
    kinds = ["ber", "bler"] if case["metric"] == "pair" else [case["metric"]]
    objs = {k: _make(case, k) for k in kinds}
    ref = {k: [0, 0] for k in kinds}  # errors, total since the last reset
    fresh_val = {k: float(_make(case, k).compute()) for k in kinds}
    L, block = case["L"], case["block"]
    n_updates = 0
    sizes = set()
    inner = False
    big_then_small = False
    saw_big = False
    nops = len(case["ops"])

    def violate(comp, kind, msg, **extra):
        sig = {"component": comp, "kind": kind, "complex": case["complex"]}
        sig.update(extra)
        res.violations.append(Violation(sig, f"C16/{comp}: {msg}"))

    cname = {"ber": "BitErrorRate", "bler": "BlockErrorRate"}
    bufs = {}

    def buffered(t, which, n_rows):
        """the same values in a persistent buffer (one per role and row count), refilled in place"""
        if not case.get("buffers") or t.dim() != 2:
            return t
        key = (which, n_rows, t.dtype)
        if key not in bufs:
            bufs[key] = torch.empty_like(t)
        else:
            res.probes["buffer.refilled_in_place"] += 1
        bufs[key].copy_(t)
        return bufs[key]

    diverged = [False]  # the paired objects no longer hold the same data (one of them rejected a batch)

    def after_failed(k, o, counted, what):
        """A call on the live object raised.  Like any failed operation it may have taken effect completely (where that is
        defined: `counted` = the batch's (errors, total)) or not at all; a half-applied batch is a violation.  Nothing else is
        asked.  When both readings give the same value the object is reset (the ambiguity cannot be resolved by reading)."""
        res.faults["history.call_raised_on_live_object"] += 1
        res.probes[f"rejected_on_live_object.{k}"] += 1
        diverged[0] = True
        got = float(o.compute())
        e0, t0 = ref[k]
        without = e0 / t0 if t0 else fresh_val[k]
        cands = [("not at all", [e0, t0], without)]
        if counted is not None and (t0 + counted[1]):
            cands.append(("completely", [e0 + counted[0], t0 + counted[1]], (e0 + counted[0]) / (t0 + counted[1])))
        hits = [c for c in cands if _close(got, c[2])]
        log.add("after_failed", {"metric": k, "value": got, "hits": [c[0] for c in hits]})
        if not hits:
            violate(cname[k], "half_applied_call", f"{what}; afterwards compute() = {got!r}, which is neither the value before the call ({without!r}) nor the value with the batch counted completely" + (f" ({cands[1][2]!r})" if len(cands) > 1 else ""))
            o.reset()
            ref[k] = [0, 0]
        elif len(hits) == 1 or hits[0][1] == hits[-1][1]:
            ref[k] = list(hits[0][1])
        else:
            o.reset()
            ref[k] = [0, 0]
            got0 = float(o.compute())
            if not _close(got0, fresh_val[k]):
                violate(cname[k], "reset", f"compute() right after reset() = {got0!r}; a fresh object gives {fresh_val[k]!r}")

    for oi, op in enumerate(case["ops"]):
        if op[0] in ("bigupdate", "alias_pair", "helper") and case["dtype"] not in CORE_DTYPES:
            continue  # these operations are exercised with the core dtypes only
        if op[0] == "update":
            rows, layout = op[1], op[2]
            x = buffered(_mk_tensor(case, rows, "X", layout), "x", len(rows))
            y = buffered(_mk_tensor(case, rows, "Y", layout), "y", len(rows))
            if layout == "flat":
                if "ber" in objs and case["metric"] == "ber":
                    x, y = x.reshape(-1), y.reshape(-1)
            be, bt, ke, kt = _ref_counts(case, rows, block)
            eff = case["dtype"]
            if len(op) > 3:
                eff = op[3]
                x, y = x.to(DT[eff]), y.to(DT[eff])
                res.faults["delivery.batch_in_another_dtype"] += 1
            for k, o in objs.items():
                try:
                    o.update(x, y)
                except Exception as exc:
                    if eff in CORE_DTYPES:
                        raise
                    after_failed(k, o, (be, bt) if k == "ber" else (ke, kt), f"update() raised {type(exc).__name__} for dtype {eff}")
                    continue
                ref[k][0] += be if k == "ber" else ke
                ref[k][1] += bt if k == "ber" else kt
            n_updates += 1
            sizes.add(len(rows))
            if saw_big:
                big_then_small = True
            res.faults["delivery.fragment"] += 1
            if len(rows) == 1:
                res.probes["update.single_row"] += 1
            log.add("update", {"rows": rows, "layout": layout})
        elif op[0] == "bigupdate":
            nbits, pat = op[1], op[2]
            rows_n = nbits // L
            if case["complex"]:
                xr = torch.zeros(rows_n, L)
                x = torch.complex(xr, xr)
                if pat == "alldiff":
                    y = torch.complex(xr + 1, xr + 1)
                elif pat == "half":
                    y = torch.complex(xr + 1, xr)
                else:
                    y = x.clone()
                be = {"alldiff": 2 * rows_n * L, "half": rows_n * L, "equal": 0}[pat]
                bt = 2 * rows_n * L
            else:
                x = torch.zeros(rows_n, L, dtype=DT[case["dtype"]])
                if pat == "alldiff":
                    y = torch.ones_like(x)
                    be = rows_n * L
                elif pat == "half":
                    y = torch.zeros_like(x)
                    y[:, ::2] = 1
                    be = rows_n * ((L + 1) // 2)
                else:
                    y = x.clone()
                    be = 0
                bt = rows_n * L
            nblk = L // (block or L)
            ke = 0 if pat == "equal" else rows_n * nblk
            if pat == "half" and not case["complex"] and (block or L) == 1:
                ke = be
            kt = rows_n * nblk
            for k, o in objs.items():
                o.update(x, y)
                ref[k][0] += be if k == "ber" else ke
                ref[k][1] += bt if k == "ber" else kt
            del x, y
            saw_big = True
            n_updates += 1
            res.faults["delivery.big_update"] += 1
            log.add("bigupdate", {"bits": nbits, "pattern": pat})
        elif op[0] == "compute":
            if 0 < oi < nops - 1 and n_updates:
                inner = True
            vals = {}
            for k, o in objs.items():
                got = float(o.compute())
                vals[k] = got
                want = ref[k][0] / ref[k][1] if ref[k][1] else fresh_val[k]
                log.add("compute", {"metric": k, "value": got, "ref": [ref[k][0], ref[k][1]]})
                if not _close(got, want):
                    violate(cname[k], "streaming_value", f"compute() = {got!r} after {n_updates} updates since construction; reference counter says {ref[k][0]}/{ref[k][1]} = {want!r}")
            if len(objs) == 2 and ref["ber"][1] and ref["bler"][1] and not diverged[0]:
                B = (block or L) * (2 if case["complex"] else 1)
                b_, l_ = vals["ber"], vals["bler"]
                if not (b_ <= l_ + 2e-6 and l_ <= min(1.0, B * b_) + 2e-6 * B):
                    violate("BitErrorRate+BlockErrorRate", "inequality", f"BER={b_!r}, BLER={l_!r}, block size {B}: BER <= BLER <= min(1, B*BER) does not hold")
                res.probes["inequality.checked"] += 1
        elif op[0] == "reset":
            if 0 < oi < nops - 1:
                inner = True
            diverged[0] = False
            for k, o in objs.items():
                o.reset()
                ref[k] = [0, 0]
                if len(op) > 1 and op[1] == "quiet":
                    continue
                got = float(o.compute())
                if not _close(got, fresh_val[k]):
                    violate(cname[k], "reset", f"compute() right after reset() = {got!r}; a fresh object gives {fresh_val[k]!r}")
            res.faults["history.reset"] += 1
            log.add("reset", None)
        elif op[0] == "oneshot":
            rows = op[1]
            x = _mk_tensor(case, rows, "X", "2d")
            y = _mk_tensor(case, rows, "Y", "2d")
            be, bt, ke, kt = _ref_counts(case, rows, block)
            for k in kinds:
                m = _make(case, k)
                try:
                    got = float(m(x, y))
                    rev = float(m(y, x))
                except Exception:
                    if case["dtype"] in CORE_DTYPES:
                        raise
                    res.probes[f"rejected.{case['dtype']}.{k}"] += 1
                    continue
                want = (be / bt) if k == "ber" else (ke / kt)
                log.add("oneshot", {"metric": k, "rows": rows, "value": got})
                if not _close(got, want):
                    violate(cname[k], "oneshot_value", f"metric(x, y) = {got!r} on rows {rows}; exact fraction is {want!r}")
                if got != rev:
                    violate(cname[k], "symmetry", f"metric(x, y) = {got!r} but metric(y, x) = {rev!r}")
                equal = be == 0
                if (got == 0.0) != equal:
                    violate(cname[k], "zero_iff_equal", f"metric = {got!r} while the inputs {'agree' if equal else 'differ'}")
                res.probes["oneshot"] += 1
        elif op[0] == "oneshot_live":
            rows = op[1]
            x = buffered(_mk_tensor(case, rows, "X", "2d"), "x", len(rows))
            y = buffered(_mk_tensor(case, rows, "Y", "2d"), "y", len(rows))
            be, bt, ke, kt = _ref_counts(case, rows, block)
            for k, o in objs.items():
                try:
                    got = o(x, y)
                except Exception as exc:
                    if case["dtype"] in CORE_DTYPES:
                        raise
                    after_failed(k, o, None, f"metric(x, y) on the live object raised {type(exc).__name__} for dtype {case['dtype']}")
                    continue
                want = (be / bt) if k == "ber" else (ke / kt)
                log.add("oneshot_live", {"metric": k, "rows": rows, "value": got})
                if not isinstance(got, torch.Tensor) or got.numel() != 1:
                    violate(cname[k], "oneshot_shape", f"metric(x, y) on the live object returned {type(got).__name__} of shape {list(getattr(got, 'shape', []))}, expected one number")
                elif not _close(float(got), want):
                    violate(cname[k], "oneshot_value", f"metric(x, y) on the live object = {float(got)!r} on rows {rows}; exact fraction is {want!r}")
            res.faults["history.oneshot_on_live_object"] += 1
        elif op[0] == "alias_pair":
            how, rows = op[1], op[2]
            base = _mk_tensor(case, rows, "X", "2d")  # (L, L), real or complex
            if how == "transpose":
                xa, ya = base, base.transpose(0, 1)
            else:
                flatb = base.reshape(-1)
                half = flatb.numel() // 2
                xa, ya = flatb[:half].reshape(1, -1), flatb[::2][:half].reshape(1, -1)
            if xa.shape == ya.shape and xa.numel() > 0:
                w_ = 2 if case["complex"] else 1
                if case["complex"]:
                    diffbits = int(((xa.real > 0.5) != (ya.real > 0.5)).sum() + ((xa.imag > 0.5) != (ya.imag > 0.5)).sum())
                else:
                    diffbits = int(((xa > 0.5) != (ya > 0.5)).sum())
                totbits = xa.numel() * w_
                if "ber" in objs:
                    got = float(_make(case, "ber")(xa, ya))
                    log.add("alias_pair", {"how": how, "value": got})
                    if not _close(got, diffbits / totbits):
                        violate("BitErrorRate", "oneshot_value", f"metric(x, y) = {got!r} for two views of one buffer ({how}); exact fraction is {diffbits}/{totbits}", aliasing=how)
                    o = objs["ber"]
                    o.update(xa, ya)
                    ref["ber"][0] += diffbits
                    ref["ber"][1] += totbits
                    if "bler" in objs:  # keep the paired object on the same data
                        blk = block or xa.shape[-1]  # no block size: one block per row
                        # the paired comparison BER <= BLER <= min(1, B*BER) needs one block size B for all the data: with an explicit
                        # block size the row must divide into blocks, without one the row must have the stream's row length
                        if (xa.shape[-1] % blk == 0) if block else (xa.shape[-1] == L):
                            xb, yb = xa.contiguous(), ya.contiguous()
                            eb = (torch.abs(xb - yb) > 0).reshape(xb.shape[0], -1, blk).any(dim=-1)
                            objs["bler"].update(xa, ya)
                            ref["bler"][0] += int(eb.sum())
                            ref["bler"][1] += int(eb.numel())
                        else:
                            # the aliased pair does not divide into blocks: the block metric cannot take it, so both objects
                            # start over (they must hold the same data for the BER <= BLER comparison to mean anything)
                            for k2, o2 in objs.items():
                                o2.reset()
                                ref[k2] = [0, 0]
                    n_updates += 1
                    res.faults["delivery.aliased_argument_pair"] += 1
        elif op[0] == "reject_live":
            how, r = op[1], op[2]
            x = _mk_tensor(case, [r], "X", "2d")
            y = _mk_tensor(case, [r], "Y", "2d")
            for k, o in objs.items():
                if k != "bler":
                    continue
                saved = o.block_size
                try:
                    if how == "shape":
                        o.update(x, y[:, :-1]) if L > 1 else o.update(x, y.reshape(-1))
                    else:
                        nd = [b for b in range(2, L) if L % b != 0]
                        o.block_size = nd[0] if nd else saved  # reconfigured to a non-divisor for this one call
                        (o.update if how == "update" else o)(x, y)
                except Exception:
                    res.probes["rejected_on_live_object"] += 1
                finally:
                    o.block_size = saved
            res.faults["history.rejected_call_on_live_object"] += 1
            log.add("reject_live", how)
        elif op[0] == "helper":
            r = op[1]
            if case["complex"]:
                continue
            x = _mk_tensor(case, [r], "X", "2d").reshape(-1)
            y = _mk_tensor(case, [r], "Y", "2d").reshape(-1)
            if oi % 3 == 1 and case["dtype"] != "bool":
                x, y = 2 * x - 1, 2 * y - 1  # the same bits in bipolar form (-1 for 0, +1 for 1)
                res.probes["helper.bipolar_bits"] += 1
            be, bt, ke, kt = _ref_counts(case, [r], block)
            h = StandardMetrics.bit_error_rate(x, y)
            o = float(ber_mod.BitErrorRate()(x, y))
            log.add("helper", {"row": r, "ber": h})
            if not _close(h, o) or not _close(h, be / bt):
                violate("StandardMetrics.bit_error_rate", "helper", f"helper = {h!r}, BitErrorRate = {o!r}, exact = {be / bt!r}")
            Bsz = block or L
            hb = StandardMetrics.block_error_rate(x, y, Bsz)
            ob = float(bler_mod.BlockErrorRate(block_size=Bsz)(x.reshape(1, -1), y.reshape(1, -1)))
            if not _close(hb, ob) or not _close(hb, ke / kt):
                violate("StandardMetrics.block_error_rate", "helper", f"helper = {hb!r}, BlockErrorRate = {ob!r}, exact = {ke / kt!r} (block size {Bsz})")
            res.probes["helper"] += 1
        elif op[0] == "neutral":
            # operations of the nn.Module interface that must not disturb the accumulated counts
            for o in objs.values():
                if op[1] == "eval":
                    o.eval()
                elif op[1] == "train":
                    o.train()
                elif op[1] == "to_cpu":
                    o.to("cpu")
                elif op[1] == "float":
                    o.float()
                elif op[1] == "zero_grad":
                    o.zero_grad()
                elif op[1] == "state_dict_read":
                    o.state_dict()
                else:
                    str(o)
            res.faults["history.neutral_module_op"] += 1
            log.add("neutral", op[1])
        elif op[0] == "reject":
            bs, r = op[1], op[2]
            x = _mk_tensor(case, [r], "X", "2d")
            y = _mk_tensor(case, [r], "Y", "2d")
            m = bler_mod.BlockErrorRate(block_size=bs)
            for how in ("forward", "update"):
                try:
                    if how == "forward":
                        m(x, y)
                    else:
                        m.update(x, y)
                    violate("BlockErrorRate", "accepted_nondivisor", f"{how}() accepted row length {L} with block size {bs} (not a divisor) instead of raising")
                except Exception:
                    res.probes["rejected_nondivisor"] += 1
                m = bler_mod.BlockErrorRate(block_size=bs)  # nothing is asked of an object after a rejected call
            log.add("reject", {"block": bs})
    if (n_updates >= 2 and len(sizes) >= 2) or inner or big_then_small:
        res.nontrivial.append(core.short_hash([case["metric"], case["complex"], case["dtype"], L, block, case["how"], case["ops"], core.short_hash([case["X"], case["Y"]])]))
    if big_then_small:
        res.probes["long_stream.big_then_small"] += 1
    res.digest = log.digest()
    res.n_events = len(log)
    return res


# ----------------------------------------------------------------------------- shrinking / samples


def shrink_candidates(case: dict):
    for cand in list_ddmin(case["ops"]):
        c = copy.deepcopy(case)
        c["ops"] = copy.deepcopy(cand)
        if c["ops"] and c["ops"][-1][0] != "compute":
            c["ops"].append(["compute"])
        yield c
    for i, op in enumerate(case["ops"]):
        if op[0] in ("update", "oneshot") and len(op[1]) > 1:
            for j in range(len(op[1])):
                c = copy.deepcopy(case)
                c["ops"][i][1] = op[1][:j] + op[1][j + 1:]
                yield c
        if op[0] == "update" and op[2] != "2d":
            c = copy.deepcopy(case)
            c["ops"][i][2] = "2d"
            yield c


def sample_of(case: dict):
    c = copy.deepcopy(case)
    c["X"] = c["X"][:3] + (["..."] if len(c["X"]) > 3 else [])
    c["Y"] = c["Y"][:3] + (["..."] if len(c["Y"]) > 3 else [])
    if len(c["ops"]) > 24:
        c["ops"] = c["ops"][:24] + [f"... {len(case['ops']) - 24} more"]
    return c


if __name__ == "__main__":
    from sim import runner

    sys.exit(runner.main(sys.modules[__name__]))
